package c16

import (
	"bytes"
	"encoding/base64"
	"errors"
	"fmt"
	"math/big"
	"reflect"
	"regexp"
	"strings"
	"sync"

	"github.com/go-json-experiment/json"
	"github.com/go-json-experiment/json/jsontext"
	"pgregory.net/rapid"

	"verif/harness/cov"
	"verif/harness/ref"
	"verif/harness/rt"
)

// TDesc describes a Go type that reflect can build.
//
// K is one of bool int8 int16 int32 int64 uint8 uint16 uint32 uint64 float32
// float64 string bytes any slice array map struct ptr chan func errif
// (errif is the non-empty interface type error; chan/func/errif cannot be
// unmarshaled into and yield the "before the value" flavour of SemanticError).
type TDesc struct {
	K      string  `json:"k"`
	N      int     `json:"n,omitempty"` // array length
	Elem   *TDesc  `json:"elem,omitempty"`
	Fields []FDesc `json:"fields,omitempty"`
}

// FDesc is one struct field; the Go field is named F<i>, the JSON name is Name.
type FDesc struct {
	Name string `json:"name"`
	T    TDesc  `json:"t"`
}

// SemCase is a type description and a syntactically valid text.
type SemCase struct {
	Type TDesc  `json:"type"`
	Text []byte `json:"text"`
}

var scalarTypes = map[string]reflect.Type{
	"bool": reflect.TypeFor[bool](), "int8": reflect.TypeFor[int8](), "int16": reflect.TypeFor[int16](), "int32": reflect.TypeFor[int32](), "int64": reflect.TypeFor[int64](),
	"uint8": reflect.TypeFor[uint8](), "uint16": reflect.TypeFor[uint16](), "uint32": reflect.TypeFor[uint32](), "uint64": reflect.TypeFor[uint64](),
	"float32": reflect.TypeFor[float32](), "float64": reflect.TypeFor[float64](), "string": reflect.TypeFor[string](), "bytes": reflect.TypeFor[[]byte](),
	"any": reflect.TypeFor[any](), "chan": reflect.TypeFor[chan int](), "func": reflect.TypeFor[func()](), "errif": reflect.TypeFor[error](),
}

var intBits = map[string]int{"int8": 8, "int16": 16, "int32": 32, "int64": 64, "uint8": 8, "uint16": 16, "uint32": 32, "uint64": 64}

var fieldNameRE = regexp.MustCompile(`^[a-z][a-z0-9_]{0,9}$`)

func (d *TDesc) key(sb *strings.Builder) {
	sb.WriteString(d.K)
	switch d.K {
	case "array":
		fmt.Fprintf(sb, "%d", d.N)
		fallthrough
	case "slice", "map", "ptr":
		sb.WriteByte('(')
		if d.Elem != nil {
			d.Elem.key(sb)
		}
		sb.WriteByte(')')
	case "struct":
		sb.WriteByte('{')
		for _, f := range d.Fields {
			sb.WriteString(f.Name)
			sb.WriteByte(':')
			f.T.key(sb)
			sb.WriteByte(';')
		}
		sb.WriteByte('}')
	}
}

var typeCache sync.Map // key -> reflect.Type

// build realises the description. Descriptions that reflect or the library
// treat specially (byte arrays, duplicate field names, ...) are refused.
func (d *TDesc) build(depth int) (reflect.Type, error) {
	if depth > 10 {
		return nil, errors.New("type too deep")
	}
	if t, ok := scalarTypes[d.K]; ok {
		return t, nil
	}
	var sb strings.Builder
	d.key(&sb)
	if t, ok := typeCache.Load(sb.String()); ok {
		return t.(reflect.Type), nil
	}
	var out reflect.Type
	switch d.K {
	case "slice", "array", "map", "ptr":
		if d.Elem == nil {
			return nil, errors.New("missing element type")
		}
		et, err := d.Elem.build(depth + 1)
		if err != nil {
			return nil, err
		}
		switch d.K {
		case "slice", "array":
			if d.Elem.K == "uint8" {
				return nil, errors.New("byte slices/arrays are spelled as base64 strings")
			}
			if d.K == "slice" {
				out = reflect.SliceOf(et)
			} else {
				if d.N < 0 || d.N > 8 {
					return nil, errors.New("array length out of range")
				}
				out = reflect.ArrayOf(d.N, et)
			}
		case "map":
			out = reflect.MapOf(reflect.TypeFor[string](), et)
		default:
			out = reflect.PointerTo(et)
		}
	case "struct":
		if len(d.Fields) > 12 {
			return nil, errors.New("too many fields")
		}
		seen := map[string]bool{}
		var fs []reflect.StructField
		for i := range d.Fields {
			f := &d.Fields[i]
			if !fieldNameRE.MatchString(f.Name) || seen[f.Name] {
				return nil, fmt.Errorf("bad field name %q", f.Name)
			}
			seen[f.Name] = true
			ft, err := f.T.build(depth + 1)
			if err != nil {
				return nil, err
			}
			fs = append(fs, reflect.StructField{Name: fmt.Sprintf("F%d", i), Type: ft, Tag: reflect.StructTag(`json:"` + f.Name + `"`)})
		}
		out = reflect.StructOf(fs)
	default:
		return nil, fmt.Errorf("unknown kind %q", d.K)
	}
	typeCache.Store(sb.String(), out)
	return out, nil
}

// convErr is the reference verdict: the first value (in document order, which
// is the order Unmarshal works in) that cannot be converted.
type convErr struct {
	found  bool
	unsure bool // the oracle does not model this situation: skip the case
	ptr    string
	start  int
	end    int
	why    string
}

var intLitRE = regexp.MustCompile(`^-?(0|[1-9][0-9]*)$`)

func failAt(n *ref.Node, ptr, why string) convErr {
	return convErr{found: true, ptr: ptr, start: n.Start, end: n.End, why: why}
}

// firstConvError walks the value along the type.
func firstConvError(d *TDesc, n *ref.Node, ptr string, text []byte) convErr {
	k := n.Kind
	lit := string(text[n.Start:n.End])
	switch d.K {
	case "chan", "func":
		return failAt(n, ptr, "unsupported-type")
	case "errif":
		if k == 'n' {
			return convErr{}
		}
		return failAt(n, ptr, "unsupported-type")
	case "any":
		return firstAnyError(n, ptr, text)
	}
	if k == 'n' {
		return convErr{} // null is accepted by every remaining kind
	}
	switch d.K {
	case "bool":
		if k == 't' || k == 'f' {
			return convErr{}
		}
		return failAt(n, ptr, "wrong-kind")
	case "int8", "int16", "int32", "int64", "uint8", "uint16", "uint32", "uint64":
		if k != '0' {
			return failAt(n, ptr, "wrong-kind")
		}
		if !intLitRE.MatchString(lit) {
			return failAt(n, ptr, "number-form")
		}
		bits := uint(intBits[d.K])
		v, _ := new(big.Int).SetString(lit, 10)
		lo, hi := new(big.Int), new(big.Int)
		if d.K[0] == 'u' {
			if lit[0] == '-' {
				return failAt(n, ptr, "number-range")
			}
			hi.Sub(hi.Lsh(big.NewInt(1), bits), big.NewInt(1))
		} else {
			hi.Sub(hi.Lsh(big.NewInt(1), bits-1), big.NewInt(1))
			lo.Neg(lo.Lsh(big.NewInt(1), bits-1))
		}
		if v.Cmp(lo) < 0 || v.Cmp(hi) > 0 {
			return failAt(n, ptr, "number-range")
		}
		return convErr{}
	case "float32", "float64":
		if k != '0' {
			return failAt(n, ptr, "wrong-kind")
		}
		bits := 64
		if d.K == "float32" {
			bits = 32
		}
		if _, over := ref.RoundFloat(lit, bits); over {
			return failAt(n, ptr, "number-range")
		}
		return convErr{}
	case "string":
		if k == '"' {
			return convErr{}
		}
		return failAt(n, ptr, "wrong-kind")
	case "bytes":
		if k != '"' {
			return failAt(n, ptr, "wrong-kind")
		}
		if !n.StrValid {
			return convErr{unsure: true}
		}
		if _, err := base64.StdEncoding.DecodeString(n.Str); err != nil || strings.ContainsAny(n.Str, "\r\n") {
			return failAt(n, ptr, "base64")
		}
		return convErr{}
	case "ptr":
		return firstConvError(d.Elem, n, ptr, text)
	case "slice", "array":
		if d.Elem.K == "uint8" {
			return convErr{unsure: true}
		}
		if k != '[' {
			return failAt(n, ptr, "wrong-kind")
		}
		for i, e := range n.Elems {
			if d.K == "array" && i >= d.N {
				break // surplus elements are skipped, not converted
			}
			if r := firstConvError(d.Elem, e, fmt.Sprintf("%s/%d", ptr, i), text); r.found || r.unsure {
				return r
			}
		}
		if d.K == "array" && len(n.Elems) != d.N {
			return failAt(n, ptr, "array-length")
		}
		return convErr{}
	case "map":
		if k != '{' {
			return failAt(n, ptr, "wrong-kind")
		}
		for _, m := range n.Members {
			if r := firstConvError(d.Elem, m.Value, ptr+"/"+ref.EscapePtr(m.Name.Str), text); r.found || r.unsure {
				return r
			}
		}
		return convErr{}
	case "struct":
		if k != '{' {
			return failAt(n, ptr, "wrong-kind")
		}
		for _, m := range n.Members {
			for i := range d.Fields {
				if d.Fields[i].Name == m.Name.Str {
					if r := firstConvError(&d.Fields[i].T, m.Value, ptr+"/"+ref.EscapePtr(m.Name.Str), text); r.found || r.unsure {
						return r
					}
				}
			}
		}
		return convErr{}
	}
	return convErr{unsure: true}
}

// firstAnyError: the only value an `any` cannot hold is a number beyond float64.
func firstAnyError(n *ref.Node, ptr string, text []byte) convErr {
	switch n.Kind {
	case '0':
		if _, over := ref.RoundFloat(string(text[n.Start:n.End]), 64); over {
			return failAt(n, ptr, "number-range")
		}
	case '[':
		for i, e := range n.Elems {
			if r := firstAnyError(e, fmt.Sprintf("%s/%d", ptr, i), text); r.found {
				return r
			}
		}
	case '{':
		for _, m := range n.Members {
			if r := firstAnyError(m.Value, ptr+"/"+ref.EscapePtr(m.Name.Str), text); r.found {
				return r
			}
		}
	}
	return convErr{}
}

// RunSem decides one semantic-error case.
func RunSem(c SemCase) error {
	rec.Eval()
	node, rerr := ref.Parse(c.Text, defOpt)
	if rerr != nil {
		rec.Class("sem:text-not-valid(skipped)")
		return nil
	}
	typ, terr := c.Type.build(0)
	if terr != nil {
		rec.Class("sem:type-not-buildable(skipped)")
		return nil
	}
	want := firstConvError(&c.Type, node, "", c.Text)
	if want.unsure {
		rec.Class("sem:oracle-unsure(skipped)")
		return nil
	}
	var err error
	if p := rt.Guard(func() { err = json.Unmarshal(c.Text, reflect.New(typ).Interface()) }); p != nil {
		return fmt.Errorf("Unmarshal(%q) into %v panicked: %v", clip(c.Text), typ, p)
	}
	var se *json.SemanticError
	switch {
	case !want.found && err == nil:
		rec.Class("sem:no-error")
		return nil
	case !want.found:
		rec.Class("sem:library-error-but-oracle-none(skipped)")
		return nil
	case err == nil:
		rec.Class("sem:oracle-error-but-library-accepts(skipped)")
		return nil
	case !errors.As(err, &se):
		rec.Class("sem:other-error(skipped)")
		return nil
	}
	where := fmt.Sprintf("Unmarshal(%q) into %v: SemanticError{ByteOffset:%d, JSONPointer:%q, Err:%v}", clip(c.Text), typ, se.ByteOffset, se.JSONPointer, se.Err)
	if string(se.JSONPointer) != want.ptr {
		return fmt.Errorf("%s: the value that cannot be converted (%s) is %q at [%d,%d)", where, want.why, want.ptr, want.start, want.end)
	}
	// errors.go: "ByteOffset indicates that an error occurred at or after this
	// byte offset" - together with the statement (the offset of the value that
	// could not be converted) the offset must lie within that value.
	if se.ByteOffset < int64(want.start) || se.ByteOffset >= int64(want.end) {
		return fmt.Errorf("%s: ByteOffset lies outside the value that cannot be converted (%s): %q spans [%d,%d)", where, want.why, want.ptr, want.start, want.end)
	}
	// The same text arriving through a reader in small chunks: the delimiter and
	// whitespace run before the value can straddle a refill, which must not move
	// the reported position.
	for _, chunk := range []int{2, 3, 5, 7, 61, 1 << 20} {
		var serr error
		if p := rt.Guard(func() {
			serr = json.UnmarshalRead(&chunkReader{b: c.Text, n: chunk}, reflect.New(typ).Interface())
		}); p != nil {
			return fmt.Errorf("UnmarshalRead(%q in %d-byte chunks) into %v panicked: %v", clip(c.Text), chunk, typ, p)
		}
		var sse *json.SemanticError
		if !errors.As(serr, &sse) {
			return fmt.Errorf("%s; but UnmarshalRead in %d-byte chunks returns %v", where, chunk, serr)
		}
		if string(sse.JSONPointer) != want.ptr || sse.ByteOffset < int64(want.start) || sse.ByteOffset >= int64(want.end) {
			return fmt.Errorf("UnmarshalRead(%q in %d-byte chunks) into %v: SemanticError{ByteOffset:%d, JSONPointer:%q}: the value that cannot be converted (%s) is %q at [%d,%d) (Unmarshal from []byte reports offset %d)",
				clip(c.Text), chunk, typ, sse.ByteOffset, sse.JSONPointer, want.why, want.ptr, want.start, want.end, se.ByteOffset)
		}
	}
	// The same through a Decoder the caller owns: afterwards the stack indexes
	// must be plausible (a container cannot hold more elements than bytes were read).
	{
		dec := jsontext.NewDecoder(bytes.NewReader(c.Text))
		var derr error
		if p := rt.Guard(func() { derr = json.UnmarshalDecode(dec, reflect.New(typ).Interface()) }); p != nil {
			return fmt.Errorf("UnmarshalDecode(%q) into %v panicked: %v", clip(c.Text), typ, p)
		}
		var dse *json.SemanticError
		if !errors.As(derr, &dse) || string(dse.JSONPointer) != want.ptr {
			return fmt.Errorf("%s; but UnmarshalDecode on a Decoder returns %v", where, derr)
		}
		for d := 1; d <= dec.StackDepth(); d++ {
			if _, n := dec.StackIndex(d); n < 0 || n > int64(len(c.Text)) {
				return fmt.Errorf("UnmarshalDecode(%q) into %v failed at %q; afterwards Decoder.StackIndex(%d) reports length %d for a text of %d bytes", clip(c.Text), typ, want.ptr, d, n, len(c.Text))
			}
		}
	}
	// The same value decoded by a user method that hands its bytes to a nested
	// Unmarshal: the nested error is relative to those bytes and must be
	// reported at its position in the whole input.
	{
		nu := &nestU{typ: typ}
		var nerr error
		if p := rt.Guard(func() { nerr = json.Unmarshal(c.Text, nu) }); p != nil {
			return fmt.Errorf("Unmarshal(%q) through a nested UnmarshalJSON panicked: %v", clip(c.Text), p)
		}
		var nse *json.SemanticError
		if !errors.As(nerr, &nse) {
			return fmt.Errorf("%s; but through a type whose UnmarshalJSON calls Unmarshal the result is %v", where, nerr)
		}
		if string(nse.JSONPointer) != want.ptr || nse.ByteOffset < int64(want.start) || nse.ByteOffset >= int64(want.end) {
			return fmt.Errorf("Unmarshal(%q) into %v through a type whose UnmarshalJSON calls Unmarshal: SemanticError{ByteOffset:%d, JSONPointer:%q}: the value that cannot be converted (%s) is %q at [%d,%d) of the input (plain Unmarshal reports offset %d)",
				clip(c.Text), typ, nse.ByteOffset, nse.JSONPointer, want.why, want.ptr, want.start, want.end, se.ByteOffset)
		}
	}
	rec.Class("sem:checked:" + want.why)
	if se.ByteOffset == int64(want.start) {
		rec.Class("sem:offset==value-start")
	} else {
		rec.Class("sem:offset-inside-value")
	}
	if want.start > 0 && (isWS(c.Text[want.start-1])) {
		rec.Class("sem:whitespace-before-value")
	}
	var sb strings.Builder
	c.Type.key(&sb)
	fp := cov.FP([]byte("sem"), c.Text, []byte(sb.String()))
	if d := ptrDepth(want.ptr); d >= 2 {
		rec.NonTrivial(fp)
		rec.Class("sem:depth>=2")
		rec.Sample(fp, func() any {
			return map[string]any{"sub": "sem", "type": typ.String(), "text": clip(c.Text), "error_kind": want.why, "pointer": want.ptr, "offset": se.ByteOffset}
		})
	} else {
		rec.Class("sem:depth<2")
	}
	return nil
}

// ---------------------------------------------------------------------------
// sub-check "msem": the JSONPointer of a marshal-time SemanticError names the
// Go value that cannot be represented, under every whitespace style (member
// names are located in the output buffer, so indentation must not shift them).

// firstUnsupported returns the pointer of the first chan/func leaf that a
// depth-first walk of a value populated by populate meets.
func firstUnsupported(d *TDesc, ptr string) (string, bool) {
	switch d.K {
	case "chan", "func":
		return ptr, true
	case "ptr":
		return firstUnsupported(d.Elem, ptr)
	case "slice":
		return firstUnsupported(d.Elem, ptr+"/0")
	case "array":
		if d.N == 0 {
			return "", false
		}
		return firstUnsupported(d.Elem, ptr+"/0")
	case "map":
		return firstUnsupported(d.Elem, ptr+"/k")
	case "struct":
		for i := range d.Fields {
			if p, ok := firstUnsupported(&d.Fields[i].T, ptr+"/"+d.Fields[i].Name); ok {
				return p, true
			}
		}
	}
	return "", false
}

// populate makes every container hold one element so that a walk reaches the leaves.
func populate(v reflect.Value, depth int) {
	if depth > 12 {
		return
	}
	switch v.Kind() {
	case reflect.Pointer:
		v.Set(reflect.New(v.Type().Elem()))
		populate(v.Elem(), depth+1)
	case reflect.Slice:
		if v.Type().Elem().Kind() == reflect.Uint8 {
			return
		}
		v.Set(reflect.MakeSlice(v.Type(), 1, 1))
		populate(v.Index(0), depth+1)
	case reflect.Array:
		for i := 0; i < v.Len(); i++ {
			populate(v.Index(i), depth+1)
		}
	case reflect.Map:
		m := reflect.MakeMap(v.Type())
		e := reflect.New(v.Type().Elem()).Elem()
		populate(e, depth+1)
		m.SetMapIndex(reflect.ValueOf("k").Convert(v.Type().Key()), e)
		v.Set(m)
	case reflect.Struct:
		for i := 0; i < v.NumField(); i++ {
			populate(v.Field(i), depth+1)
		}
	case reflect.Chan:
		v.Set(reflect.MakeChan(v.Type(), 0))
	case reflect.Func:
		v.Set(reflect.MakeFunc(v.Type(), func([]reflect.Value) []reflect.Value { return nil }))
	}
}

var msemOpts = []struct {
	name string
	opts []json.Options
}{
	{"compact", nil},
	{"Multiline", []json.Options{jsontext.Multiline(true)}},
	{"WithIndent", []json.Options{jsontext.WithIndent("  "), jsontext.WithIndentPrefix("\t")}},
	{"SpaceAfterComma+Colon", []json.Options{jsontext.SpaceAfterComma(true), jsontext.SpaceAfterColon(true)}},
	{"Deterministic+Multiline", []json.Options{json.Deterministic(true), jsontext.Multiline(true)}},
}

// GenMSem draws a type with unsupported leaves.
func GenMSem(t *rapid.T) SemCase {
	typ := genType(t, rapid.IntRange(1, 4).Draw(t, "tdepth"), true)
	if _, ok := firstUnsupported(&typ, ""); !ok {
		// no chan/func leaf drawn: put one behind the generated type, two levels down
		bad := TDesc{K: rapid.SampledFrom([]string{"chan", "func"}).Draw(t, "badleaf")}
		inner := TDesc{K: "struct", Fields: []FDesc{{Name: "gamma", T: bad}}}
		if rapid.Bool().Draw(t, "viaslice") {
			inner = TDesc{K: "slice", Elem: &TDesc{K: "struct", Fields: []FDesc{{Name: "gamma", T: bad}}}}
		}
		typ = TDesc{K: "struct", Fields: []FDesc{{Name: "alpha", T: typ}, {Name: "beta", T: inner}}}
	}
	return SemCase{Type: typ}
}

// RunMSem decides one marshal-side case.
func RunMSem(c SemCase) error {
	rec.Eval()
	typ, terr := c.Type.build(0)
	if terr != nil {
		rec.Class("msem:type-not-buildable(skipped)")
		return nil
	}
	want, ok := firstUnsupported(&c.Type, "")
	if !ok {
		rec.Class("msem:no-unsupported-leaf")
		return nil
	}
	v := reflect.New(typ).Elem()
	populate(v, 0)
	for _, o := range msemOpts {
		var err error
		var out []byte
		if p := rt.Guard(func() { out, err = json.Marshal(v.Interface(), o.opts...) }); p != nil {
			return fmt.Errorf("Marshal of %v (%s) panicked: %v", typ, o.name, p)
		}
		var se *json.SemanticError
		if err == nil {
			return fmt.Errorf("Marshal of %v (%s) succeeded (%q) although the value holds a chan/func at %q", typ, o.name, clip(out), want)
		}
		if !errors.As(err, &se) {
			rec.Class("msem:other-error(skipped)")
			return nil
		}
		if string(se.JSONPointer) != want {
			return fmt.Errorf("Marshal of %v (%s): SemanticError{JSONPointer:%q, Err:%v}: the Go value that cannot be represented is at %q", typ, o.name, se.JSONPointer, se.Err, want)
		}
		// the same through an Encoder the caller owns, after which the stack
		// indexes must be plausible (no more elements than bytes written)
		var buf bytes.Buffer
		enc := jsontext.NewEncoder(&buf, o.opts...)
		if p := rt.Guard(func() { err = json.MarshalEncode(enc, v.Interface()) }); p != nil {
			return fmt.Errorf("MarshalEncode of %v (%s) panicked: %v", typ, o.name, p)
		}
		if !errors.As(err, &se) || string(se.JSONPointer) != want {
			return fmt.Errorf("MarshalEncode of %v (%s): error %v, expected a SemanticError at %q", typ, o.name, err, want)
		}
		for d := 1; d <= enc.StackDepth(); d++ {
			if _, n := enc.StackIndex(d); n < 0 || n > enc.OutputOffset()+int64(buf.Len())+16 {
				return fmt.Errorf("MarshalEncode of %v (%s) failed at %q; afterwards Encoder.StackIndex(%d) reports length %d with %d bytes written", typ, o.name, want, d, n, enc.OutputOffset())
			}
		}
	}
	var sb strings.Builder
	c.Type.key(&sb)
	fp := cov.FP([]byte("msem"), []byte(sb.String()))
	if ptrDepth(want) >= 2 {
		rec.NonTrivial(fp)
		rec.Sample(fp, func() any { return map[string]any{"sub": "msem", "type": typ.String(), "pointer": want} })
	}
	rec.Class("msem:checked")
	return nil
}

// nestU decodes its bytes with a nested Unmarshal into a value of typ.
type nestU struct{ typ reflect.Type }

func (n *nestU) UnmarshalJSON(b []byte) error {
	return json.Unmarshal(b, reflect.New(n.typ).Interface())
}

package c16

import (
	"bytes"
	"fmt"
	"io"
	"strconv"

	"github.com/go-json-experiment/json/jsontext"
	"pgregory.net/rapid"

	"verif/harness/cov"
	"verif/harness/gen"
	"verif/harness/ref"
	"verif/harness/rt"
)

// EncOp is one Encoder call: K in n f t " 0 { } [ ] selects WriteToken (S is
// the decoded string / the number literal), K == 'v' is WriteValue(S).
type EncOp struct {
	K byte   `json:"k"`
	S []byte `json:"s,omitempty"`
}

// EncCase is a sequence of Encoder calls (valid ones and a few that the
// encoder must reject) and the kind of writer.
type EncCase struct {
	Ops []EncOp `json:"ops"`
	Buf bool    `json:"bytes_buffer"` // *bytes.Buffer (special-cased by the Encoder) instead of a plain io.Writer
}

type sliceWriter struct{ b []byte }

func (w *sliceWriter) Write(p []byte) (int, error) { w.b = append(w.b, p...); return len(p), nil }

func (o EncOp) token() (jsontext.Token, bool) {
	switch o.K {
	case 'n':
		return jsontext.Null, true
	case 'f':
		return jsontext.False, true
	case 't':
		return jsontext.True, true
	case '"':
		return jsontext.String(string(o.S)), true
	case '0':
		if i, err := strconv.ParseInt(string(o.S), 10, 64); err == nil {
			return jsontext.Int(i), true
		}
		if u, err := strconv.ParseUint(string(o.S), 10, 64); err == nil {
			return jsontext.Uint(u), true
		}
		f, _ := strconv.ParseFloat(string(o.S), 64)
		return jsontext.Float(f), true
	case '{':
		return jsontext.BeginObject, true
	case '}':
		return jsontext.EndObject, true
	case '[':
		return jsontext.BeginArray, true
	case ']':
		return jsontext.EndArray, true
	}
	return jsontext.Token{}, false
}

type encObs struct {
	s    snap
	cnt  int // tokens successfully written so far
	what string
}

// RunEnc decides one encoder-state case.
func RunEnc(c EncCase) error {
	rec.Eval()
	var sw sliceWriter
	var bb bytes.Buffer
	var w io.Writer = &sw
	if c.Buf {
		w = &bb
	}
	e := jsontext.NewEncoder(w)

	type lvl struct {
		obj bool
		n   int
	}
	var stack []lvl
	bump := func() {
		if len(stack) > 0 {
			stack[len(stack)-1].n++
		}
	}
	var obs []encObs
	cnt := 0
	rejected := 0
	observe := func(what string) error {
		var s snap
		if p := rt.Guard(func() { s = takeSnap(e, e.OutputOffset()) }); p != nil {
			return fmt.Errorf("%s: position accessor panicked: %v", what, p)
		}
		obs = append(obs, encObs{s, cnt, what})
		return nil
	}
	if err := observe("before any call"); err != nil {
		return err
	}
	do := func(i int, o EncOp) error {
		var err error
		ntok := 1
		what := fmt.Sprintf("call #%d WriteToken(%q %q)", i, rune(o.K), o.S)
		if o.K == 'v' {
			what = fmt.Sprintf("call #%d WriteValue(%q)", i, clip(o.S))
			if p := rt.Guard(func() { err = e.WriteValue(jsontext.Value(o.S)) }); p != nil {
				return fmt.Errorf("%s panicked: %v", what, p)
			}
			if err == nil {
				vt, verr := ref.TokensLite(o.S, defOpt)
				if verr != nil {
					return fmt.Errorf("%s succeeded although the reference rejects the value: %v", what, verr)
				}
				ntok = len(vt)
			}
		} else {
			tok, ok := o.token()
			if !ok {
				return nil
			}
			if p := rt.Guard(func() { err = e.WriteToken(tok) }); p != nil {
				return fmt.Errorf("%s panicked: %v", what, p)
			}
		}
		if err == nil {
			cnt += ntok
			switch o.K {
			case '{', '[':
				bump()
				stack = append(stack, lvl{obj: o.K == '{'})
			case '}', ']':
				if len(stack) == 0 || stack[len(stack)-1].obj != (o.K == '}') {
					return fmt.Errorf("%s succeeded but no matching container is open", what)
				}
				stack = stack[:len(stack)-1]
			default:
				bump()
			}
		} else {
			rejected++
			what += " [rejected]"
		}
		return observe(what)
	}
	for i, o := range c.Ops {
		if err := do(i, o); err != nil {
			return err
		}
	}
	// complete the document so that every produced byte reaches the writer
	nops := len(c.Ops)
	for len(stack) > 0 {
		top := stack[len(stack)-1]
		var o EncOp
		switch {
		case top.obj && top.n%2 == 1:
			o = EncOp{K: 'n'}
		case top.obj:
			o = EncOp{K: '}'}
		default:
			o = EncOp{K: ']'}
		}
		before := cnt
		if err := do(nops, o); err != nil {
			return err
		}
		if cnt == before {
			return fmt.Errorf("cannot complete the document: closing call %q was rejected (ops %s)", rune(o.K), opsString(c.Ops))
		}
		nops++
	}
	out := sw.b
	if c.Buf {
		out = bb.Bytes()
	}
	toks, rerr := ref.Tokens(out, defOpt)
	if rerr != nil {
		return fmt.Errorf("encoder output %q is not a valid JSON stream: %v (ops %s)", clip(out), rerr, opsString(c.Ops))
	}
	if len(toks) != cnt {
		return fmt.Errorf("encoder output %q has %d tokens, the accepted calls wrote %d (ops %s)", clip(out), len(toks), cnt, opsString(c.Ops))
	}
	maxDepth := 0
	for _, o := range obs {
		m := modelAt(toks, o.cnt)
		// bytes produced so far: everything up to the end of the last token,
		// plus possibly the newline that terminates a top-level value.
		limit := len(out)
		if o.cnt < len(toks) {
			limit = toks[o.cnt].Start
		}
		okOff := o.s.Off == int64(m.End)
		if !okOff && m.Depth == 0 && o.s.Off > int64(m.End) && o.s.Off <= int64(limit) {
			okOff = true
			for _, ch := range out[m.End:o.s.Off] {
				if !isWS(ch) {
					okOff = false
				}
			}
		}
		if !okOff {
			return fmt.Errorf("%s: OutputOffset=%d, model %d (after %d tokens of output %q; ops %s)", o.what, o.s.Off, m.End, o.cnt, clip(out), opsString(c.Ops))
		}
		if dd := o.s.diff(m); dd != "" {
			return fmt.Errorf("%s: %s (after %d tokens, offset %d of output %q; ops %s)", o.what, dd, o.cnt, m.End, clip(out), opsString(c.Ops))
		}
		if m.Depth > maxDepth {
			maxDepth = m.Depth
		}
	}

	var raw []byte
	for _, o := range c.Ops {
		raw = append(raw, o.K)
		raw = append(raw, o.S...)
		raw = append(raw, 0)
	}
	fp := cov.FP([]byte("enc"), raw, []byte{b2(c.Buf)})
	if maxDepth >= 2 {
		rec.NonTrivial(fp)
		rec.Class("enc:depth>=2")
		rec.Sample(fp, func() any {
			return map[string]any{"sub": "enc-state", "ops": opsString(c.Ops), "output": clip(out), "max_depth": maxDepth, "rejected_calls": rejected}
		})
	} else {
		rec.Class("enc:depth<2")
	}
	if rejected > 0 {
		rec.Class("enc:has-rejected-call")
	}
	return nil
}

func b2(b bool) byte {
	if b {
		return 1
	}
	return 0
}

func opsString(ops []EncOp) string {
	var sb bytes.Buffer
	for i, o := range ops {
		if i > 0 {
			sb.WriteByte(' ')
		}
		if i > 60 {
			fmt.Fprintf(&sb, "...(%d ops)", len(ops))
			break
		}
		switch o.K {
		case 'v':
			fmt.Fprintf(&sb, "V(%s)", clip(o.S))
		case '"', '0':
			fmt.Fprintf(&sb, "%c(%s)", o.K, clip(o.S))
		default:
			sb.WriteByte(o.K)
		}
	}
	return sb.String()
}

// GenEnc turns a valid document into WriteToken/WriteValue calls, choosing
// per value whether it is written whole or token by token, and sprinkles a
// few calls that must be rejected.
func GenEnc(t *rapid.T) EncCase {
	cfg := gen.DocCfg{WS: true, Wide: rapid.IntRange(0, 5).Draw(t, "wide") == 0, LongStr: true, MaxDepth: rapid.IntRange(2, 6).Draw(t, "maxdepth")}
	var in []byte
	if rapid.IntRange(0, 3).Draw(t, "stream") == 0 {
		in = validStream(t, cfg)
	} else {
		in = nestedDoc(t, cfg)
	}
	toks, err := ref.TokensLite(in, defOpt)
	if err != nil {
		t.Fatalf("generator produced an invalid text %q: %v", in, err)
	}
	valueProb := rapid.SampledFrom([]int{0, 1, 3, 6}).Draw(t, "valueprob") // out of 10
	bogusProb := rapid.SampledFrom([]int{0, 0, 1, 3}).Draw(t, "bogusprob") // out of 40
	var ops []EncOp
	for i := 0; i < len(toks); i++ {
		if bogusProb > 0 && rapid.IntRange(0, 39).Draw(t, "bogus?") < bogusProb {
			ops = append(ops, bogusOp(t))
		}
		tk := toks[i]
		closer := tk.Kind == '}' || tk.Kind == ']'
		if !closer && valueProb > 0 && rapid.IntRange(0, 9).Draw(t, "asvalue?") < valueProb {
			end := tk.End
			j := i
			if tk.Kind == '{' || tk.Kind == '[' {
				for j = i + 1; toks[j].Depth != tk.Depth-1; j++ {
				}
				end = toks[j].End
			}
			v := append([]byte(nil), in[tk.Start:end]...)
			if rapid.IntRange(0, 4).Draw(t, "padvalue") == 0 {
				v = append(append([]byte(" \n"), v...), '\t')
			}
			ops = append(ops, EncOp{K: 'v', S: v})
			i = j
			continue
		}
		switch tk.Kind {
		case '"':
			ops = append(ops, EncOp{K: '"', S: []byte(tk.Str)})
		case '0':
			ops = append(ops, EncOp{K: '0', S: append([]byte(nil), in[tk.Start:tk.End]...)})
		default:
			ops = append(ops, EncOp{K: byte(tk.Kind)})
		}
	}
	if bogusProb > 0 && rapid.Bool().Draw(t, "cut") && len(ops) > 0 {
		ops = ops[:rapid.IntRange(0, len(ops)).Draw(t, "cutat")] // RunEnc completes the document itself
	}
	return EncCase{Ops: ops, Buf: rapid.Bool().Draw(t, "bytesbuffer")}
}

func bogusOp(t *rapid.T) EncOp {
	switch rapid.IntRange(0, 5).Draw(t, "bogusclass") {
	case 0:
		return EncOp{K: rapid.SampledFrom([]byte{'}', ']'}).Draw(t, "closer")}
	case 1:
		return EncOp{K: rapid.SampledFrom([]byte{'n', 't', '0', '{', '['}).Draw(t, "nonname"), S: []byte("7")}
	case 2:
		return EncOp{K: 'v', S: []byte(rapid.SampledFrom([]string{`[1,}`, `{"a":1,"a":2}`, `{"a":{"b":1]}`, `nul`, `"x`, `[1] 2`, ``, ` `, "\"\xff\"", `{"a":[1,{"b":tru}]}`, `1e`}).Draw(t, "badvalue"))}
	case 3:
		return EncOp{K: '"', S: []byte(rapid.SampledFrom([]string{"a", "b", "", "k0", "k1", "p", "q", "\xff"}).Draw(t, "dupname"))}
	case 4:
		return EncOp{K: '0', S: []byte(rapid.SampledFrom([]string{"NaN", "Inf", "-Inf"}).Draw(t, "nonfinite"))}
	default:
		return EncOp{K: 'v', S: []byte(rapid.SampledFrom([]string{`null`, `{"a":[1,2,{"b":null}]}`, `[[],{}]`, `"s"`, `12`}).Draw(t, "okvalue"))}
	}
}

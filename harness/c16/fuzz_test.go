package c16

import (
	"testing"

	"verif/harness/rt"
)

// FuzzSyn lets the native fuzzer drive the "syn" generator (coverage-guided).
func FuzzSyn(f *testing.F) {
	rt.FuzzRapid(f, "C16", "syn", GenSyn, RunSyn)
}

package ref

import (
	"math"
	"math/big"
	"strconv"
	"strings"
)

// ES6 formats a finite float the way ECMA-262 Number::toString does (radix
// 10), except that negative zero is written "-0". bits is 32 or 64.
//
// The shortest round-tripping digit string comes from strconv (trusted, and
// re-checked by ShortestOK); the layout is written from the ECMA-262 text.
func ES6(f float64, bits int) string {
	if f == 0 {
		if math.Signbit(f) {
			return "-0"
		}
		return "0"
	}
	neg := f < 0
	if neg {
		f = -f
	}
	// digits d1..dk and n such that value = 0.d1..dk * 10^n
	e := strconv.FormatFloat(f, 'e', -1, bits) // d.ddddde±xx
	mant, exp, _ := strings.Cut(e, "e")
	digits := strings.Replace(mant, ".", "", 1)
	x, _ := strconv.Atoi(exp)
	k := len(digits)
	n := x + 1
	var s string
	switch {
	case k <= n && n <= 21:
		s = digits + strings.Repeat("0", n-k)
	case 0 < n && n <= 21:
		s = digits[:n] + "." + digits[n:]
	case -6 < n && n <= 0:
		s = "0." + strings.Repeat("0", -n) + digits
	default:
		ex := n - 1
		sign := "+"
		if ex < 0 {
			sign = "-"
			ex = -ex
		}
		if k == 1 {
			s = digits + "e" + sign + strconv.Itoa(ex)
		} else {
			s = digits[:1] + "." + digits[1:] + "e" + sign + strconv.Itoa(ex)
		}
	}
	if neg {
		s = "-" + s
	}
	return s
}

// RatOf returns the exact rational value of a JSON number literal.
func RatOf(lit string) *big.Rat {
	// big.Rat.SetString accepts JSON number syntax (a superset). For huge
	// exponents it may refuse; handle mantissa/exponent manually.
	mant, exp := lit, ""
	if i := strings.IndexAny(lit, "eE"); i >= 0 {
		mant, exp = lit[:i], lit[i+1:]
	}
	r, ok := new(big.Rat).SetString(mant)
	if !ok {
		return nil
	}
	if exp != "" {
		e, ok := new(big.Int).SetString(strings.TrimPrefix(exp, "+"), 10)
		if !ok {
			return nil
		}
		if !e.IsInt64() || e.Int64() > 100000 || e.Int64() < -100000 {
			return nil // caller treats as overflow/underflow by sign
		}
		p := new(big.Int).Exp(big.NewInt(10), new(big.Int).Abs(e), nil)
		if e.Sign() >= 0 {
			r.Mul(r, new(big.Rat).SetInt(p))
		} else {
			r.Quo(r, new(big.Rat).SetInt(p))
		}
	}
	return r
}

// RoundFloat returns the correctly rounded (nearest-even) float of a JSON
// number literal for the given precision, and whether it overflows to
// infinity. Sign of zero follows the literal.
func RoundFloat(lit string, bits int) (f float64, overflow bool) {
	neg := strings.HasPrefix(lit, "-")
	r := RatOf(lit)
	if r == nil {
		// absurd exponent: decide by sign of exponent and zero-ness of mantissa
		mant := lit
		exp := ""
		if i := strings.IndexAny(lit, "eE"); i >= 0 {
			mant, exp = lit[:i], lit[i+1:]
		}
		zero := strings.Trim(mant, "-0.") == ""
		if zero || strings.HasPrefix(exp, "-") {
			if neg {
				return math.Copysign(0, -1), false
			}
			return 0, false
		}
		if neg {
			return math.Inf(-1), true
		}
		return math.Inf(1), true
	}
	if r.Sign() == 0 {
		if neg {
			return math.Copysign(0, -1), false
		}
		return 0, false
	}
	if bits == 32 {
		v, _ := r.Float32()
		if math.IsInf(float64(v), 0) {
			return float64(v), true
		}
		if v == 0 && neg {
			return math.Copysign(0, -1), false
		}
		return float64(v), false
	}
	v, _ := r.Float64()
	if math.IsInf(v, 0) {
		return v, true
	}
	if v == 0 && neg {
		return math.Copysign(0, -1), false
	}
	return v, false
}

// ShortestOK re-checks that s (a decimal spelling produced for f) is a
// shortest representation: it parses back to f, and no spelling with one
// digit fewer does. Used as a self-check of the strconv-based oracle.
func ShortestOK(f float64, bits int) bool {
	e := strconv.FormatFloat(f, 'e', -1, bits)
	back, err := strconv.ParseFloat(e, bits)
	if err != nil || math.Float64bits(back) != math.Float64bits(f) {
		return false
	}
	mant, exp, _ := strings.Cut(e, "e")
	digits := strings.Replace(strings.TrimPrefix(mant, "-"), ".", "", 1)
	if len(digits) == 1 {
		return true
	}
	// Any (k-1)-digit decimal that rounds to f would have to be one of the two
	// neighbours obtained by truncating / rounding up the k-digit string.
	x, _ := strconv.Atoi(exp)
	trunc := digits[:len(digits)-1]
	ti, _ := new(big.Int).SetString(trunc, 10)
	for _, d := range []int64{0, 1} {
		c := new(big.Int).Add(ti, big.NewInt(d))
		s := c.String() + "e" + strconv.Itoa(x-(len(trunc)-1))
		if strings.HasPrefix(mant, "-") {
			s = "-" + s
		}
		v, err := strconv.ParseFloat(s, bits)
		if err == nil && math.Float64bits(v) == math.Float64bits(f) {
			return false
		}
	}
	return true
}

// Package ref is the independent reference model used as oracle by every check.
// It is written from RFC 8259, RFC 7493, RFC 8785, RFC 6901 and ECMA-262 and
// imports nothing from the code under test.
package ref

import (
	"fmt"
	"strconv"
	"unicode/utf8"
)

// Opt selects the two permissive options of the grammar.
type Opt struct {
	AllowInvalidUTF8 bool
	AllowDup         bool
	MaxDepth         int // 0 means 10000
}

// ErrKind classifies why a text is rejected.
type ErrKind int

const (
	ErrSyntax ErrKind = iota + 1
	ErrUTF8
	ErrDup
	ErrDepth
)

func (k ErrKind) String() string {
	switch k {
	case ErrSyntax:
		return "syntax"
	case ErrUTF8:
		return "utf8"
	case ErrDup:
		return "dup"
	case ErrDepth:
		return "depth"
	}
	return "?"
}

// Err describes a rejection.
//
// Pos is the index of the first byte whose inclusion makes the input stop being
// a viable prefix (for Truncated errors Pos == len(input) and every byte so far
// is fine). TokStart is the start of the lexical token that contains Pos (or
// Pos itself when no token is open).
type Err struct {
	Pos       int
	TokStart  int
	Truncated bool
	Kind      ErrKind
	Msg       string
	// Path of the innermost open container at the error, as a list of
	// steps (member names or indexes), and the "current" member within it.
	Ptr     string // RFC 6901 pointer of innermost open container
	PtrNext string // pointer of the member/element being processed (may equal Ptr)
}

func (e *Err) Error() string {
	return fmt.Sprintf("ref: %s error at %d (tok %d, trunc=%v): %s", e.Kind, e.Pos, e.TokStart, e.Truncated, e.Msg)
}

// Kind of a node: one of n f t " 0 { [
type Kind byte

// Node is a parsed value with its span.
type Node struct {
	Kind     Kind
	Start    int
	End      int
	Str      string // decoded text of a string (ill-formed parts replaced by U+FFFD)
	StrValid bool   // string literal had no ill-formed UTF-8 / unpaired surrogate
	Members  []Member
	Elems    []*Node
}

// Member is one object member.
type Member struct {
	Name  *Node
	Value *Node
}

type frame struct {
	obj   bool
	names map[string]bool
	count int    // members or elements completed or in progress
	cur   string // current member name (decoded) for objects
}

type parser struct {
	b     []byte
	opt   Opt
	pos   int
	stack []frame
}

func (p *parser) maxDepth() int {
	if p.opt.MaxDepth == 0 {
		return 10000
	}
	return p.opt.MaxDepth
}

func (p *parser) errAt(pos, tokStart int, kind ErrKind, msg string) *Err {
	e := &Err{Pos: pos, TokStart: tokStart, Kind: kind, Msg: msg, Truncated: pos >= len(p.b) && kind == ErrSyntax}
	if n := len(p.stack); n > 0 {
		f := p.stack[n-1]
		ptr := p.framePtr(n - 1)
		e.Ptr = ptr
		e.PtrNext = ptr
		if f.obj {
			if f.count > 0 {
				e.PtrNext = ptr + "/" + EscapePtr(f.cur)
			}
		} else {
			e.PtrNext = fmt.Sprintf("%s/%d", ptr, f.count)
		}
	}
	return e
}

// EscapePtr escapes one reference token per RFC 6901.
func EscapePtr(s string) string {
	out := make([]byte, 0, len(s))
	for i := 0; i < len(s); i++ {
		switch s[i] {
		case '~':
			out = append(out, '~', '0')
		case '/':
			out = append(out, '~', '1')
		default:
			out = append(out, s[i])
		}
	}
	return string(out)
}

func isWS(c byte) bool { return c == ' ' || c == '\t' || c == '\n' || c == '\r' }

func (p *parser) skipWS() {
	for p.pos < len(p.b) && isWS(p.b[p.pos]) {
		p.pos++
	}
}

// Parse accepts exactly one JSON text surrounded by optional whitespace.
func Parse(b []byte, opt Opt) (*Node, *Err) {
	p := &parser{b: b, opt: opt}
	p.skipWS()
	n, err := p.value()
	if err != nil {
		return nil, err
	}
	p.skipWS()
	if p.pos < len(b) {
		return nil, p.errAt(p.pos, p.pos, ErrSyntax, "trailing data after top-level value")
	}
	return n, nil
}

// Valid reports whether b is one JSON text under opt.
func Valid(b []byte, opt Opt) bool {
	_, err := Parse(b, opt)
	return err == nil
}

// Viable reports whether b is a prefix of some valid single JSON text (or of a
// stream when stream is true).
func Viable(b []byte, opt Opt, stream bool) bool {
	var err *Err
	if stream {
		_, err = ParseStream(b, opt)
	} else {
		if len(trimWS(b)) == 0 {
			return true
		}
		_, err = Parse(b, opt)
	}
	return err == nil || err.Truncated
}

func trimWS(b []byte) []byte {
	for len(b) > 0 && isWS(b[0]) {
		b = b[1:]
	}
	return b
}

// ParseStream accepts a concatenation of JSON texts separated by optional
// whitespace (numbers consumed greedily) and returns the top-level nodes.
// On error it returns the nodes completed so far.
func ParseStream(b []byte, opt Opt) ([]*Node, *Err) {
	p := &parser{b: b, opt: opt}
	var out []*Node
	for {
		p.skipWS()
		if p.pos >= len(b) {
			return out, nil
		}
		n, err := p.value()
		if err != nil {
			return out, err
		}
		out = append(out, n)
	}
}

func (p *parser) value() (*Node, *Err) {
	if p.pos >= len(p.b) {
		return nil, p.errAt(p.pos, p.pos, ErrSyntax, "unexpected end, value expected")
	}
	switch c := p.b[p.pos]; {
	case c == 'n':
		return p.literal("null", 'n')
	case c == 't':
		return p.literal("true", 't')
	case c == 'f':
		return p.literal("false", 'f')
	case c == '"':
		return p.str()
	case c == '-' || (c >= '0' && c <= '9'):
		return p.number()
	case c == '{':
		return p.object()
	case c == '[':
		return p.array()
	}
	return nil, p.errAt(p.pos, p.pos, ErrSyntax, "invalid character at start of value")
}

func (p *parser) literal(lit string, k Kind) (*Node, *Err) {
	start := p.pos
	for i := 0; i < len(lit); i++ {
		if p.pos >= len(p.b) {
			return nil, p.errAt(p.pos, start, ErrSyntax, "truncated literal")
		}
		if p.b[p.pos] != lit[i] {
			return nil, p.errAt(p.pos, start, ErrSyntax, "invalid literal")
		}
		p.pos++
	}
	return &Node{Kind: k, Start: start, End: p.pos}, nil
}

func isDigit(c byte) bool { return c >= '0' && c <= '9' }

func (p *parser) number() (*Node, *Err) {
	start := p.pos
	b := p.b
	if b[p.pos] == '-' {
		p.pos++
	}
	if p.pos >= len(b) {
		return nil, p.errAt(p.pos, start, ErrSyntax, "truncated number")
	}
	switch {
	case b[p.pos] == '0':
		p.pos++
	case b[p.pos] >= '1' && b[p.pos] <= '9':
		for p.pos < len(b) && isDigit(b[p.pos]) {
			p.pos++
		}
	default:
		return nil, p.errAt(p.pos, start, ErrSyntax, "digit expected")
	}
	if p.pos < len(b) && b[p.pos] == '.' {
		p.pos++
		if p.pos >= len(b) {
			return nil, p.errAt(p.pos, start, ErrSyntax, "truncated fraction")
		}
		if !isDigit(b[p.pos]) {
			return nil, p.errAt(p.pos, start, ErrSyntax, "digit expected in fraction")
		}
		for p.pos < len(b) && isDigit(b[p.pos]) {
			p.pos++
		}
	}
	if p.pos < len(b) && (b[p.pos] == 'e' || b[p.pos] == 'E') {
		p.pos++
		if p.pos < len(b) && (b[p.pos] == '+' || b[p.pos] == '-') {
			p.pos++
		}
		if p.pos >= len(b) {
			return nil, p.errAt(p.pos, start, ErrSyntax, "truncated exponent")
		}
		if !isDigit(b[p.pos]) {
			return nil, p.errAt(p.pos, start, ErrSyntax, "digit expected in exponent")
		}
		for p.pos < len(b) && isDigit(b[p.pos]) {
			p.pos++
		}
	}
	return &Node{Kind: '0', Start: start, End: p.pos}, nil
}

func hexVal(c byte) int {
	switch {
	case c >= '0' && c <= '9':
		return int(c - '0')
	case c >= 'a' && c <= 'f':
		return int(c-'a') + 10
	case c >= 'A' && c <= 'F':
		return int(c-'A') + 10
	}
	return -1
}

// utf8SeqLen returns the length of the well-formed UTF-8 sequence (Unicode
// Table 3-7) starting at b[0], or 0 if b[0] does not start one within b, and
// whether b is a proper prefix of a well-formed sequence (truncated).
func utf8SeqLen(b []byte) (n int, prefix bool) {
	c := b[0]
	var need int
	var lo, hi byte = 0x80, 0xBF
	switch {
	case c < 0x80:
		return 1, false
	case c >= 0xC2 && c <= 0xDF:
		need = 1
	case c == 0xE0:
		need, lo = 2, 0xA0
	case c >= 0xE1 && c <= 0xEC, c == 0xEE, c == 0xEF:
		need = 2
	case c == 0xED:
		need, hi = 2, 0x9F
	case c == 0xF0:
		need, lo = 3, 0x90
	case c >= 0xF1 && c <= 0xF3:
		need = 3
	case c == 0xF4:
		need, hi = 3, 0x8F
	default:
		return 0, false
	}
	for i := 1; i <= need; i++ {
		if i >= len(b) {
			return 0, true
		}
		l, h := byte(0x80), byte(0xBF)
		if i == 1 {
			l, h = lo, hi
		}
		if b[i] < l || b[i] > h {
			return 0, false
		}
	}
	return need + 1, false
}

// str parses a string literal at p.pos.
func (p *parser) str() (*Node, *Err) {
	n, err := p.strAt()
	return n, err
}

func (p *parser) strAt() (*Node, *Err) {
	b := p.b
	start := p.pos
	p.pos++ // opening quote
	out := make([]byte, 0, 16)
	valid := true
	for {
		if p.pos >= len(b) {
			return nil, p.errAt(p.pos, start, ErrSyntax, "truncated string")
		}
		c := b[p.pos]
		switch {
		case c == '"':
			p.pos++
			return &Node{Kind: '"', Start: start, End: p.pos, Str: string(out), StrValid: valid}, nil
		case c < 0x20:
			return nil, p.errAt(p.pos, start, ErrSyntax, "control character in string")
		case c == '\\':
			if p.pos+1 >= len(b) {
				return nil, p.errAt(len(b), start, ErrSyntax, "truncated escape")
			}
			e := b[p.pos+1]
			switch e {
			case '"', '\\', '/':
				out = append(out, e)
				p.pos += 2
			case 'b':
				out = append(out, '\b')
				p.pos += 2
			case 'f':
				out = append(out, '\f')
				p.pos += 2
			case 'n':
				out = append(out, '\n')
				p.pos += 2
			case 'r':
				out = append(out, '\r')
				p.pos += 2
			case 't':
				out = append(out, '\t')
				p.pos += 2
			case 'u':
				r, perr := p.hex4(p.pos+2, start)
				if perr != nil {
					return nil, perr
				}
				escStart := p.pos
				p.pos += 6
				switch {
				case r >= 0xD800 && r <= 0xDBFF:
					// high surrogate: needs \uDC00..\uDFFF right after
					r2, isLow, trunc := p.peekLowSurrogate()
					if isLow {
						p.pos += 6
						cp := 0x10000 + (rune(r)-0xD800)<<10 + (rune(r2) - 0xDC00)
						out = utf8.AppendRune(out, cp)
					} else {
						if !p.opt.AllowInvalidUTF8 {
							if trunc {
								return nil, p.errAt(len(b), start, ErrSyntax, "truncated surrogate pair")
							}
							// The first byte that proves there is no low surrogate.
							return nil, p.errAt(p.surrogateMismatchPos(), start, ErrUTF8, fmt.Sprintf("unpaired high surrogate escape at %d", escStart))
						}
						valid = false
						out = append(out, "�"...)
					}
				case r >= 0xDC00 && r <= 0xDFFF:
					if !p.opt.AllowInvalidUTF8 {
						return nil, p.errAt(escStart+5, start, ErrUTF8, "lone low surrogate escape")
					}
					valid = false
					out = append(out, "�"...)
				default:
					out = utf8.AppendRune(out, rune(r))
				}
			default:
				return nil, p.errAt(p.pos+1, start, ErrSyntax, "invalid escape character")
			}
		case c < 0x80:
			out = append(out, c)
			p.pos++
		default:
			n, prefix := utf8SeqLen(b[p.pos:])
			if n > 0 {
				out = append(out, b[p.pos:p.pos+n]...)
				p.pos += n
				continue
			}
			if !p.opt.AllowInvalidUTF8 {
				if prefix {
					return nil, p.errAt(len(b), start, ErrSyntax, "truncated UTF-8 sequence")
				}
				// first byte that breaks well-formedness
				bad := p.pos
				for k := 1; k <= 4 && p.pos+k <= len(b); k++ {
					if _, pre := utf8SeqLen(b[p.pos : p.pos+k]); !pre {
						bad = p.pos + k - 1
						break
					}
				}
				e := p.errAt(bad, start, ErrUTF8, "ill-formed UTF-8 in string")
				return nil, e
			}
			// one U+FFFD per ill-formed byte
			valid = false
			out = append(out, "�"...)
			p.pos++
		}
	}
}

// hex4 parses 4 hex digits at off.
func (p *parser) hex4(off, tokStart int) (int, *Err) {
	r := 0
	for i := 0; i < 4; i++ {
		if off+i >= len(p.b) {
			return 0, p.errAt(len(p.b), tokStart, ErrSyntax, "truncated \\u escape")
		}
		h := hexVal(p.b[off+i])
		if h < 0 {
			return 0, p.errAt(off+i, tokStart, ErrSyntax, "invalid hex digit in \\u escape")
		}
		r = r<<4 | h
	}
	return r, nil
}

// peekLowSurrogate looks at p.pos for \uDC00..\uDFFF.
func (p *parser) peekLowSurrogate() (r int, isLow bool, truncated bool) {
	b := p.b[p.pos:]
	want := func(i int, ok func(c byte) bool) (cont bool) {
		if i >= len(b) {
			truncated = true
			return false
		}
		return ok(b[i])
	}
	if !want(0, func(c byte) bool { return c == '\\' }) {
		return 0, false, truncated
	}
	if !want(1, func(c byte) bool { return c == 'u' }) {
		return 0, false, truncated
	}
	if !want(2, func(c byte) bool { return c == 'd' || c == 'D' }) {
		return 0, false, truncated
	}
	if !want(3, func(c byte) bool { return c >= 'c' && c <= 'f' || c >= 'C' && c <= 'F' }) {
		return 0, false, truncated
	}
	if !want(4, func(c byte) bool { return hexVal(c) >= 0 }) {
		return 0, false, truncated
	}
	if !want(5, func(c byte) bool { return hexVal(c) >= 0 }) {
		return 0, false, truncated
	}
	r = hexVal(b[2])<<12 | hexVal(b[3])<<8 | hexVal(b[4])<<4 | hexVal(b[5])
	return r, true, false
}

// surrogateMismatchPos returns the index of the first byte at/after p.pos that
// shows the following bytes are not a low-surrogate escape.
func (p *parser) surrogateMismatchPos() int {
	b := p.b[p.pos:]
	oks := []func(c byte) bool{
		func(c byte) bool { return c == '\\' },
		func(c byte) bool { return c == 'u' },
		func(c byte) bool { return c == 'd' || c == 'D' },
		func(c byte) bool { return c >= 'c' && c <= 'f' || c >= 'C' && c <= 'F' },
		func(c byte) bool { return hexVal(c) >= 0 },
		func(c byte) bool { return hexVal(c) >= 0 },
	}
	for i, ok := range oks {
		if i >= len(b) || !ok(b[i]) {
			return p.pos + i
		}
	}
	return p.pos
}

// framePtr builds the RFC 6901 pointer of the container at stack index i
// (only needed when an error is reported, so it is computed on demand).
func (p *parser) framePtr(i int) string {
	var sb []byte
	for k := 0; k < i; k++ {
		f := p.stack[k]
		sb = append(sb, '/')
		if f.obj {
			sb = append(sb, EscapePtr(f.cur)...)
		} else {
			sb = strconv.AppendInt(sb, int64(f.count), 10)
		}
	}
	return string(sb)
}

func (p *parser) push(obj bool, at int) *Err {
	if len(p.stack) >= p.maxDepth() {
		return p.errAt(at, at, ErrDepth, "nesting too deep")
	}
	fr := frame{obj: obj}
	if obj && !p.opt.AllowDup {
		fr.names = map[string]bool{}
	}
	p.stack = append(p.stack, fr)
	return nil
}

func (p *parser) pop() { p.stack = p.stack[:len(p.stack)-1] }

func (p *parser) top() *frame { return &p.stack[len(p.stack)-1] }

func (p *parser) array() (*Node, *Err) {
	start := p.pos
	if err := p.push(false, start); err != nil {
		return nil, err
	}
	p.pos++
	n := &Node{Kind: '[', Start: start}
	p.skipWS()
	if p.pos < len(p.b) && p.b[p.pos] == ']' {
		p.pos++
		p.pop()
		n.End = p.pos
		return n, nil
	}
	for {
		p.skipWS()
		v, err := p.value()
		if err != nil {
			return nil, err
		}
		n.Elems = append(n.Elems, v)
		p.top().count++
		p.skipWS()
		if p.pos >= len(p.b) {
			return nil, p.errAt(p.pos, p.pos, ErrSyntax, "truncated array")
		}
		switch p.b[p.pos] {
		case ',':
			p.pos++
		case ']':
			p.pos++
			p.pop()
			n.End = p.pos
			return n, nil
		default:
			return nil, p.errAt(p.pos, p.pos, ErrSyntax, "expected , or ] after array element")
		}
	}
}

func (p *parser) object() (*Node, *Err) {
	start := p.pos
	if err := p.push(true, start); err != nil {
		return nil, err
	}
	p.pos++
	n := &Node{Kind: '{', Start: start}
	p.skipWS()
	if p.pos < len(p.b) && p.b[p.pos] == '}' {
		p.pos++
		p.pop()
		n.End = p.pos
		return n, nil
	}
	for {
		p.skipWS()
		if p.pos >= len(p.b) {
			return nil, p.errAt(p.pos, p.pos, ErrSyntax, "truncated object, name expected")
		}
		if p.b[p.pos] != '"' {
			return nil, p.errAt(p.pos, p.pos, ErrSyntax, "object member name must be a string")
		}
		name, err := p.strAt()
		if err != nil {
			return nil, err
		}
		f := p.top()
		f.count++
		f.cur = name.Str
		if f.names != nil {
			if f.names[name.Str] {
				e := p.errAt(name.End-1, name.Start, ErrDup, "duplicate member name")
				return nil, e
			}
			f.names[name.Str] = true
		}
		p.skipWS()
		if p.pos >= len(p.b) {
			return nil, p.errAt(p.pos, p.pos, ErrSyntax, "truncated object, colon expected")
		}
		if p.b[p.pos] != ':' {
			return nil, p.errAt(p.pos, p.pos, ErrSyntax, "expected : after member name")
		}
		p.pos++
		p.skipWS()
		v, err := p.value()
		if err != nil {
			return nil, err
		}
		n.Members = append(n.Members, Member{Name: name, Value: v})
		p.skipWS()
		if p.pos >= len(p.b) {
			return nil, p.errAt(p.pos, p.pos, ErrSyntax, "truncated object")
		}
		switch p.b[p.pos] {
		case ',':
			p.pos++
		case '}':
			p.pos++
			p.pop()
			n.End = p.pos
			return n, nil
		default:
			return nil, p.errAt(p.pos, p.pos, ErrSyntax, "expected , or } after member value")
		}
	}
}

package ref

// MergeJSON returns the RFC 7396-like merge used by the documented Unmarshal
// semantics: two objects are united recursively (members of a in order,
// members of b merged into equally named ones or appended); in every other
// case the b side wins. Names are compared after unescaping. Both inputs
// must be valid (duplicates allowed: the last equally named member of a is the
// merge target). overlaps counts the object members present on both sides.
func MergeJSON(a, b []byte) (out []byte, overlaps int, ok bool) {
	opt := Opt{AllowInvalidUTF8: true, AllowDup: true}
	na, ea := Parse(a, opt)
	nb, eb := Parse(b, opt)
	if ea != nil || eb != nil {
		return nil, 0, false
	}
	var buf []byte
	buf = mergeNodes(buf, a, na, b, nb, &overlaps)
	return buf, overlaps, true
}

func mergeNodes(buf []byte, a []byte, na *Node, b []byte, nb *Node, overlaps *int) []byte {
	if na == nil || na.Kind != '{' || nb.Kind != '{' {
		return append(buf, b[nb.Start:nb.End]...)
	}
	buf = append(buf, '{')
	used := make([]bool, len(nb.Members))
	first := true
	for _, ma := range na.Members {
		if !first {
			buf = append(buf, ',')
		}
		first = false
		buf = append(buf, a[ma.Name.Start:ma.Name.End]...)
		buf = append(buf, ':')
		// all b members with the same name apply in order
		cur := a
		curNode := ma.Value
		var tmp []byte
		matched := false
		for j, mb := range nb.Members {
			if mb.Name.Str != ma.Name.Str {
				continue
			}
			used[j] = true
			matched = true
			*overlaps++
			tmp = mergeNodes(nil, cur, curNode, b, mb.Value, overlaps)
			n, err := Parse(tmp, Opt{AllowInvalidUTF8: true, AllowDup: true})
			if err != nil {
				return append(buf, b[mb.Value.Start:mb.Value.End]...)
			}
			cur, curNode = tmp, n
		}
		if matched {
			buf = append(buf, cur[curNode.Start:curNode.End]...)
		} else {
			buf = append(buf, a[ma.Value.Start:ma.Value.End]...)
		}
	}
	for j, mb := range nb.Members {
		if used[j] {
			continue
		}
		// a member new to a; later equally named b members merge into it
		if !first {
			buf = append(buf, ',')
		}
		first = false
		buf = append(buf, b[mb.Name.Start:mb.Name.End]...)
		buf = append(buf, ':')
		cur, curNode := b, mb.Value
		for k := j + 1; k < len(nb.Members); k++ {
			if used[k] || nb.Members[k].Name.Str != mb.Name.Str {
				continue
			}
			used[k] = true
			tmp := mergeNodes(nil, cur, curNode, b, nb.Members[k].Value, overlaps)
			n, err := Parse(tmp, Opt{AllowInvalidUTF8: true, AllowDup: true})
			if err != nil {
				break
			}
			cur, curNode = tmp, n
		}
		buf = append(buf, cur[curNode.Start:curNode.End]...)
	}
	return append(buf, '}')
}

package ref

import (
	"math"
	"sort"
	"strings"
	"unicode/utf16"
	"unicode/utf8"
)

// FmtOpt mirrors the documented formatting options of jsontext.
type FmtOpt struct {
	AllowInvalidUTF8 bool
	AllowDup         bool
	EscapeHTML       bool
	EscapeJS         bool
	PreserveRaw      bool
	CanonInts        bool
	CanonFloats      bool
	Reorder          bool
	Multiline        bool
	SpaceAfterColon  *bool   // nil: unspecified (true iff Multiline)
	SpaceAfterComma  *bool   // nil: unspecified (false)
	Indent           *string // nil: unspecified ("\t" under Multiline)
	Prefix           string
}

// ParseOpt is the grammar projection of o.
func (o FmtOpt) ParseOpt() Opt {
	return Opt{AllowInvalidUTF8: o.AllowInvalidUTF8, AllowDup: o.AllowDup}
}

// FormatResult is the expected output of formatting.
type FormatResult struct {
	Out string
	// TieAmbiguous is set when reordering met members with equal names, whose
	// relative order RFC 8785 does not define; Out is then one of several
	// acceptable outputs (ties in input order).
	TieAmbiguous bool
}

type formatter struct {
	in  []byte
	o   FmtOpt
	out []byte
	tie bool
}

// Format lays out the parsed value n of text in under options o.
func Format(in []byte, n *Node, o FmtOpt) FormatResult {
	f := &formatter{in: in, o: o}
	f.value(n, 0)
	return FormatResult{Out: string(f.out), TieAmbiguous: f.tie}
}

func (f *formatter) spaceColon() bool {
	if f.o.SpaceAfterColon != nil {
		return *f.o.SpaceAfterColon
	}
	return f.o.Multiline
}

func (f *formatter) spaceComma() bool {
	if f.o.SpaceAfterComma != nil {
		return *f.o.SpaceAfterComma
	}
	return false
}

func (f *formatter) newline(depth int) {
	ind := "\t"
	if f.o.Indent != nil {
		ind = *f.o.Indent
	}
	f.out = append(f.out, '\n')
	f.out = append(f.out, f.o.Prefix...)
	for i := 0; i < depth; i++ {
		f.out = append(f.out, ind...)
	}
}

// UTF16Less reports whether a sorts before b by UTF-16 code units.
func UTF16Less(a, b string) bool { return UTF16Cmp(a, b) < 0 }

// UTF16Cmp compares by UTF-16 code units (RFC 8785 section 3.2.3).
func UTF16Cmp(a, b string) int {
	x := utf16.Encode([]rune(a))
	y := utf16.Encode([]rune(b))
	for i := 0; i < len(x) && i < len(y); i++ {
		if x[i] != y[i] {
			if x[i] < y[i] {
				return -1
			}
			return 1
		}
	}
	switch {
	case len(x) < len(y):
		return -1
	case len(x) > len(y):
		return 1
	}
	return 0
}

func (f *formatter) value(n *Node, depth int) {
	switch n.Kind {
	case 'n', 't', 'f':
		f.out = append(f.out, f.in[n.Start:n.End]...)
	case '0':
		f.out = append(f.out, f.number(string(f.in[n.Start:n.End]))...)
	case '"':
		f.out = append(f.out, f.str(n)...)
	case '[':
		if len(n.Elems) == 0 {
			f.out = append(f.out, '[', ']')
			return
		}
		f.out = append(f.out, '[')
		for i, e := range n.Elems {
			if i > 0 {
				f.out = append(f.out, ',')
				if f.spaceComma() {
					f.out = append(f.out, ' ')
				}
			}
			if f.o.Multiline {
				f.newline(depth + 1)
			}
			f.value(e, depth+1)
		}
		if f.o.Multiline {
			f.newline(depth)
		}
		f.out = append(f.out, ']')
	case '{':
		if len(n.Members) == 0 {
			f.out = append(f.out, '{', '}')
			return
		}
		ms := n.Members
		if f.o.Reorder {
			ms = append([]Member(nil), ms...)
			sort.SliceStable(ms, func(i, j int) bool { return UTF16Less(ms[i].Name.Str, ms[j].Name.Str) })
			for i := 1; i < len(ms); i++ {
				if ms[i].Name.Str == ms[i-1].Name.Str {
					f.tie = true
				}
			}
		}
		f.out = append(f.out, '{')
		for i, m := range ms {
			if i > 0 {
				f.out = append(f.out, ',')
				if f.spaceComma() {
					f.out = append(f.out, ' ')
				}
			}
			if f.o.Multiline {
				f.newline(depth + 1)
			}
			f.out = append(f.out, f.str(m.Name)...)
			f.out = append(f.out, ':')
			if f.spaceColon() {
				f.out = append(f.out, ' ')
			}
			f.value(m.Value, depth+1)
		}
		if f.o.Multiline {
			f.newline(depth)
		}
		f.out = append(f.out, '}')
	}
}

// IsIntLit reports whether a JSON number literal has neither fraction nor exponent.
func IsIntLit(lit string) bool { return !strings.ContainsAny(lit, ".eE") }

// CanonNumber is the RFC 8785 spelling of a number literal: the ES6 form of
// its float64 value, -0 as 0, overflow saturated to +-MaxFloat64.
func CanonNumber(lit string) string {
	v, over := RoundFloat(lit, 64)
	if over {
		if v < 0 {
			v = -math.MaxFloat64
		} else {
			v = math.MaxFloat64
		}
	}
	if v == 0 {
		return "0"
	}
	return ES6(v, 64)
}

func (f *formatter) number(lit string) string {
	if lit == "-0" && (f.o.CanonInts || f.o.CanonFloats) {
		return "0" // both CanonicalizeRaw* options document -0 => 0 as a special case
	}
	if IsIntLit(lit) {
		if f.o.CanonInts {
			return CanonNumber(lit)
		}
		return lit
	}
	if f.o.CanonFloats {
		return CanonNumber(lit)
	}
	return lit
}

func (f *formatter) str(n *Node) string {
	raw := f.in[n.Start:n.End]
	if !f.o.PreserveRaw {
		q, _ := Quote(n.Str, f.o.EscapeHTML, f.o.EscapeJS)
		return q
	}
	if !f.o.EscapeHTML && !f.o.EscapeJS {
		return string(raw)
	}
	return EscapeRawOnly(raw, f.o.EscapeHTML, f.o.EscapeJS)
}

// EscapeRawOnly rewrites, inside a raw string literal, only the characters
// named by the escape options (raw < > & and raw U+2028/U+2029) and keeps
// every other byte.
func EscapeRawOnly(raw []byte, html, js bool) string {
	out := make([]byte, 0, len(raw)+8)
	for i := 0; i < len(raw); {
		c := raw[i]
		switch {
		case c == '\\' && i+1 < len(raw):
			out = append(out, c, raw[i+1])
			i += 2
		case html && (c == '<' || c == '>' || c == '&'):
			out = append(out, '\\', 'u', '0', '0', hexLower[c>>4], hexLower[c&15])
			i++
		case js && c == 0xE2 && i+2 < len(raw) && raw[i+1] == 0x80 && (raw[i+2] == 0xA8 || raw[i+2] == 0xA9):
			out = append(out, '\\', 'u', '2', '0', '2', hexLower[raw[i+2]&15])
			i += 3
		default:
			out = append(out, c)
			i++
		}
	}
	return string(out)
}

// Canon returns the RFC 8785 canonical form of a parsed I-JSON text.
func Canon(in []byte, n *Node) FormatResult {
	return Format(in, n, FmtOpt{CanonInts: true, CanonFloats: true, Reorder: true})
}

// DecodedEqual reports whether two parsed values denote the same JSON value:
// same kinds, equal decoded strings, equal numbers (as exact rationals), same
// member sequence (names decoded) and same element sequence.
func DecodedEqual(a []byte, x *Node, b []byte, y *Node, numEq func(l1, l2 string) bool, unordered bool) bool {
	if x.Kind != y.Kind {
		return false
	}
	switch x.Kind {
	case 'n', 't', 'f':
		return true
	case '0':
		return numEq(string(a[x.Start:x.End]), string(b[y.Start:y.End]))
	case '"':
		return x.Str == y.Str
	case '[':
		if len(x.Elems) != len(y.Elems) {
			return false
		}
		for i := range x.Elems {
			if !DecodedEqual(a, x.Elems[i], b, y.Elems[i], numEq, unordered) {
				return false
			}
		}
		return true
	case '{':
		if len(x.Members) != len(y.Members) {
			return false
		}
		if !unordered {
			for i := range x.Members {
				if x.Members[i].Name.Str != y.Members[i].Name.Str ||
					!DecodedEqual(a, x.Members[i].Value, b, y.Members[i].Value, numEq, unordered) {
					return false
				}
			}
			return true
		}
		used := make([]bool, len(y.Members))
	outer:
		for _, m := range x.Members {
			for j, m2 := range y.Members {
				if !used[j] && m.Name.Str == m2.Name.Str && DecodedEqual(a, m.Value, b, m2.Value, numEq, unordered) {
					used[j] = true
					continue outer
				}
			}
			return false
		}
		return true
	}
	return false
}

// NumExactEq compares two number literals as exact rationals.
func NumExactEq(l1, l2 string) bool {
	if l1 == l2 {
		return true
	}
	r1, r2 := RatOf(l1), RatOf(l2)
	if r1 == nil || r2 == nil {
		return false
	}
	return r1.Cmp(r2) == 0
}

// NumFloat64Eq compares two literals by their float64 value (saturating).
func NumFloat64Eq(l1, l2 string) bool {
	return CanonNumber(l1) == CanonNumber(l2)
}

var _ = utf8.RuneError

package ref

import (
	"unicode/utf8"
)

const hexLower = "0123456789abcdef"

// Quote returns the minimal JSON string literal for s (RFC 8785 section
// 3.2.2.2): two-character escapes for " \ \b \f \n \r \t, lowercase \u00xx
// for the other C0 controls, everything else verbatim. Each ill-formed UTF-8
// byte of s becomes one U+FFFD; ok reports whether s was well-formed.
// With html, the characters < > & are written as < > &; with
// js, U+2028 and U+2029 are written as   and  .
func Quote(s string, html, js bool) (lit string, ok bool) {
	ok = true
	out := make([]byte, 0, len(s)+2)
	out = append(out, '"')
	for i := 0; i < len(s); {
		c := s[i]
		if c < 0x80 {
			switch {
			case c == '"':
				out = append(out, '\\', '"')
			case c == '\\':
				out = append(out, '\\', '\\')
			case c == '\b':
				out = append(out, '\\', 'b')
			case c == '\f':
				out = append(out, '\\', 'f')
			case c == '\n':
				out = append(out, '\\', 'n')
			case c == '\r':
				out = append(out, '\\', 'r')
			case c == '\t':
				out = append(out, '\\', 't')
			case c < 0x20, html && (c == '<' || c == '>' || c == '&'):
				out = append(out, '\\', 'u', '0', '0', hexLower[c>>4], hexLower[c&15])
			default:
				out = append(out, c)
			}
			i++
			continue
		}
		n, _ := utf8SeqLen([]byte(s[i:min(len(s), i+4)]))
		if n == 0 {
			ok = false
			out = append(out, 0xEF, 0xBF, 0xBD)
			i++
			continue
		}
		r, _ := utf8.DecodeRuneInString(s[i : i+n])
		if js && (r == 0x2028 || r == 0x2029) {
			out = append(out, '\\', 'u', '2', '0', '2', hexLower[r&15])
		} else {
			out = append(out, s[i:i+n]...)
		}
		i += n
	}
	out = append(out, '"')
	return string(out), ok
}

// Unquote decodes a JSON string literal (including the quotes). ok is false
// if lit is not a syntactically valid literal. wellFormed is false if the
// literal contains ill-formed UTF-8 or unpaired surrogate escapes (each
// replaced by U+FFFD in the result).
func Unquote(lit []byte) (s string, wellFormed bool, ok bool) {
	p := &parser{b: lit, opt: Opt{AllowInvalidUTF8: true, AllowDup: true}}
	if len(lit) == 0 || lit[0] != '"' {
		return "", false, false
	}
	n, err := p.strAt()
	if err != nil || n.End != len(lit) {
		return "", false, false
	}
	return n.Str, n.StrValid, true
}

// WellFormedUTF8 reports whether s is well-formed per Unicode Table 3-7.
func WellFormedUTF8(s string) bool {
	for i := 0; i < len(s); {
		if s[i] < 0x80 {
			i++
			continue
		}
		n, _ := utf8SeqLen([]byte(s[i:min(len(s), i+4)]))
		if n == 0 {
			return false
		}
		i += n
	}
	return true
}

// Sanitize replaces every ill-formed byte by U+FFFD.
func Sanitize(s string) string {
	if WellFormedUTF8(s) {
		return s
	}
	out := make([]byte, 0, len(s)+8)
	for i := 0; i < len(s); {
		if s[i] < 0x80 {
			out = append(out, s[i])
			i++
			continue
		}
		n, _ := utf8SeqLen([]byte(s[i:min(len(s), i+4)]))
		if n == 0 {
			out = append(out, 0xEF, 0xBF, 0xBD)
			i++
			continue
		}
		out = append(out, s[i:i+n]...)
		i += n
	}
	return string(out)
}

package ref

import (
	"fmt"
)

// Level is one level of the documented coder stack.
type Level struct {
	Kind   byte  // '{' or '[' (0 for the top level)
	Length int64 // number of values so far; names and values counted separately for objects
}

// Tok is one token of a valid stream together with the state the
// documentation promises right after the token has been read or written.
type Tok struct {
	Kind   Kind // n f t " 0 { [ } ]
	Start  int
	End    int    // end of the token itself
	Str    string // decoded string for '"'
	IsName bool
	// State after this token:
	Depth   int
	Levels  []Level // Levels[0] is the top level (Kind 0, Length = number of top-level values)
	Pointer string  // RFC 6901 pointer of the most recently handled value
}

// Tokens flattens a valid stream into tokens with the expected coder state
// after each. The text must be accepted by ParseStream under opt.
func Tokens(b []byte, opt Opt) ([]Tok, *Err) { return tokens(b, opt, true) }

// TokensLite is Tokens without the per-token Levels and Pointer snapshots
// (which cost O(depth) each).
func TokensLite(b []byte, opt Opt) ([]Tok, *Err) { return tokens(b, opt, false) }

func tokens(b []byte, opt Opt, full bool) ([]Tok, *Err) {
	nodes, err := ParseStream(b, opt)
	if err != nil {
		return nil, err
	}
	w := &tokWalker{levels: []Level{{}}, names: []string{""}, lite: !full}
	for _, n := range nodes {
		w.walk(n, false)
	}
	return w.out, nil
}

type tokWalker struct {
	out    []Tok
	levels []Level
	names  []string // current member name per level (objects), "" for arrays/top
	lite   bool
}

func (w *tokWalker) pointer() string {
	// pointer of the most recently handled value
	ptr := ""
	for i := 1; i < len(w.levels); i++ {
		l := w.levels[i]
		last := i == len(w.levels)-1
		if l.Kind == '{' {
			if l.Length == 0 {
				// nothing inside yet: pointer is the container itself
				if last {
					break
				}
				panic("ref: empty object with inner level")
			}
			ptr += "/" + EscapePtr(w.names[i])
		} else {
			if l.Length == 0 {
				if last {
					break
				}
				panic("ref: empty array with inner level")
			}
			ptr += fmt.Sprintf("/%d", l.Length-1)
		}
	}
	return ptr
}

func (w *tokWalker) emit(t Tok) {
	t.Depth = len(w.levels) - 1
	if !w.lite {
		t.Levels = append([]Level(nil), w.levels...)
		t.Pointer = w.pointer()
	}
	w.out = append(w.out, t)
}

func (w *tokWalker) walk(n *Node, isName bool) {
	top := &w.levels[len(w.levels)-1]
	switch n.Kind {
	case '{', '[':
		top.Length++
		w.levels = append(w.levels, Level{Kind: byte(n.Kind)})
		w.names = append(w.names, "")
		w.emit(Tok{Kind: n.Kind, Start: n.Start, End: n.Start + 1})
		if n.Kind == '{' {
			for _, m := range n.Members {
				w.levels[len(w.levels)-1].Length++
				w.names[len(w.levels)-1] = m.Name.Str
				w.emit(Tok{Kind: '"', Start: m.Name.Start, End: m.Name.End, Str: m.Name.Str, IsName: true})
				w.walk(m.Value, false)
			}
		} else {
			for _, e := range n.Elems {
				w.walk(e, false)
			}
		}
		w.levels = w.levels[:len(w.levels)-1]
		w.names = w.names[:len(w.levels)]
		end := Kind('}')
		if n.Kind == '[' {
			end = ']'
		}
		w.emit(Tok{Kind: end, Start: n.End - 1, End: n.End})
	default:
		top.Length++
		w.emit(Tok{Kind: n.Kind, Start: n.Start, End: n.End, Str: n.Str})
	}
}

package tv

import (
	"fmt"
	"math"
	"reflect"
	"time"
)

// Val is a plain-data description of a Go value of some Desc.
type Val struct {
	Nil   bool   `json:"nil,omitempty"` // nil pointer / slice / map / interface
	B     bool   `json:"b,omitempty"`
	I     int64  `json:"i,omitempty"` // ints; seconds for time
	U     uint64 `json:"u,omitempty"` // uints; float bits
	N     int64  `json:"n,omitempty"` // nanoseconds for time
	S     []byte `json:"s,omitempty"` // string / bytes / raw JSON / byte array
	Elems []Val  `json:"elems,omitempty"`
	Keys  []Val  `json:"keys,omitempty"` // map keys (parallel to Elems)
	Dyn   *Desc  `json:"dyn,omitempty"`  // dynamic type of a non-nil interface value; its value is Elems[0]
}

// Make builds the Go value v of type described by d (t must be Build(d)).
func Make(d *Desc, v *Val) (rv reflect.Value, err error) {
	defer func() {
		if r := recover(); r != nil {
			err = fmt.Errorf("tv.Make: %v", r)
		}
	}()
	t, err := Build(d)
	if err != nil {
		return reflect.Value{}, err
	}
	rv = reflect.New(t).Elem()
	if err := fill(d, v, rv); err != nil {
		return reflect.Value{}, err
	}
	return rv, nil
}

func trunc(i int64, bits int) int64 {
	switch bits {
	case 8:
		return int64(int8(i))
	case 16:
		return int64(int16(i))
	case 32:
		return int64(int32(i))
	}
	return i
}

func truncU(u uint64, bits int) uint64 {
	switch bits {
	case 8:
		return uint64(uint8(u))
	case 16:
		return uint64(uint16(u))
	case 32:
		return uint64(uint32(u))
	}
	return u
}

func fill(d *Desc, v *Val, rv reflect.Value) error {
	if v == nil {
		return nil
	}
	if p, ok := Pool(d.K); ok {
		return fill(p.Under, v, rv)
	}
	switch {
	case d.K == "bool":
		rv.SetBool(v.B)
	case IsInt(d.K):
		rv.SetInt(trunc(v.I, Bits(d.K)))
	case IsUint(d.K):
		rv.SetUint(truncU(v.U, Bits(d.K)))
	case d.K == "float32":
		rv.SetFloat(float64(math.Float32frombits(uint32(v.U))))
	case d.K == "float64":
		rv.SetFloat(math.Float64frombits(v.U))
	case d.K == "string":
		rv.SetString(string(v.S))
	case d.K == "bytes", d.K == "raw":
		if v.Nil {
			return nil
		}
		b := append(make([]byte, 0, len(v.S)), v.S...)
		rv.SetBytes(b)
	case d.K == "bytearr":
		for i := 0; i < rv.Len() && i < len(v.S); i++ {
			rv.Index(i).SetUint(uint64(v.S[i]))
		}
	case d.K == "time":
		tm := time.Unix(v.I, v.N).UTC()
		if v.B { // fixed zone with the given name and offset
			tm = tm.In(time.FixedZone(string(v.S), int(int64(v.U))))
		}
		rv.Set(reflect.ValueOf(tm))
	case d.K == "dur":
		rv.SetInt(v.I)
	case d.K == "any":
		if v.Nil || v.Dyn == nil || len(v.Elems) == 0 {
			return nil
		}
		inner, err := Make(v.Dyn, &v.Elems[0])
		if err != nil {
			return err
		}
		rv.Set(inner)
	case d.K == "ptr":
		if v.Nil || len(v.Elems) == 0 {
			return nil
		}
		p := reflect.New(rv.Type().Elem())
		if err := fill(d.Elem, &v.Elems[0], p.Elem()); err != nil {
			return err
		}
		rv.Set(p)
	case d.K == "slice":
		if v.Nil {
			return nil
		}
		s := reflect.MakeSlice(rv.Type(), len(v.Elems), len(v.Elems))
		for i := range v.Elems {
			if err := fill(d.Elem, &v.Elems[i], s.Index(i)); err != nil {
				return err
			}
		}
		rv.Set(s)
	case d.K == "array":
		for i := 0; i < rv.Len() && i < len(v.Elems); i++ {
			if err := fill(d.Elem, &v.Elems[i], rv.Index(i)); err != nil {
				return err
			}
		}
	case d.K == "map":
		if v.Nil {
			return nil
		}
		m := reflect.MakeMapWithSize(rv.Type(), len(v.Elems))
		for i := range v.Elems {
			if i >= len(v.Keys) {
				break
			}
			k := reflect.New(rv.Type().Key()).Elem()
			if err := fill(d.Key, &v.Keys[i], k); err != nil {
				return err
			}
			e := reflect.New(rv.Type().Elem()).Elem()
			if err := fill(d.Elem, &v.Elems[i], e); err != nil {
				return err
			}
			m.SetMapIndex(k, e)
		}
		rv.Set(m)
	case d.K == "struct":
		for i := range d.Fields {
			if i >= len(v.Elems) {
				break
			}
			f := rv.Field(i)
			if !f.CanSet() {
				continue
			}
			if err := fill(d.Fields[i].T, &v.Elems[i], f); err != nil {
				return err
			}
		}
	default:
		return fmt.Errorf("tv.fill: unknown kind %q", d.K)
	}
	return nil
}

// WalkVals calls f for every (description, value) pair of a value tree,
// following interface values into their dynamic descriptions.
func WalkVals(d *Desc, v *Val, f func(d *Desc, v *Val)) {
	if d == nil || v == nil {
		return
	}
	f(d, v)
	if _, ok := Pool(d.K); ok {
		return
	}
	switch d.K {
	case "any":
		if v.Dyn != nil && len(v.Elems) > 0 {
			WalkVals(v.Dyn, &v.Elems[0], f)
		}
	case "ptr":
		if len(v.Elems) > 0 {
			WalkVals(d.Elem, &v.Elems[0], f)
		}
	case "slice", "array":
		for i := range v.Elems {
			WalkVals(d.Elem, &v.Elems[i], f)
		}
	case "map":
		for i := range v.Elems {
			if i < len(v.Keys) {
				WalkVals(d.Key, &v.Keys[i], f)
			}
			WalkVals(d.Elem, &v.Elems[i], f)
		}
	case "struct":
		for i := range d.Fields {
			if i < len(v.Elems) {
				WalkVals(d.Fields[i].T, &v.Elems[i], f)
			}
		}
	}
}

// Package tv provides plain-data descriptions of Go types (Desc) and values
// (Val), builds them with reflect, and generates them with rapid. Being plain
// data, a (Desc, Val) pair is shrinkable and survives a JSON replay file.
package tv

import (
	"fmt"
	"reflect"
	"strconv"
	"strings"
	"sync"
	"time"

	"github.com/go-json-experiment/json/jsontext"
)

// Desc describes a Go type.
type Desc struct {
	K      string  `json:"k"`             // kind name, see Build
	Len    int     `json:"len,omitempty"` // array length
	Key    *Desc   `json:"key,omitempty"`
	Elem   *Desc   `json:"elem,omitempty"`
	Fields []Field `json:"fields,omitempty"`
	ID     int     `json:"id,omitempty"` // marker making a struct type unique (0: no marker)
}

// Field describes a struct field.
type Field struct {
	Name     string `json:"name"`               // Go field name (must be exported for non-embedded fields)
	Tag      string `json:"tag,omitempty"`      // value of the json struct tag key ("" = no tag)
	HasTag   bool   `json:"has_tag,omitempty"`  // tag present (allows empty tag value)
	Embedded bool   `json:"embedded,omitempty"` // Go embedding (Anonymous)
	T        *Desc  `json:"t"`
}

var (
	TimeType     = reflect.TypeFor[time.Time]()
	DurationType = reflect.TypeFor[time.Duration]()
	ValueType    = reflect.TypeFor[jsontext.Value]()
	AnyType      = reflect.TypeFor[any]()
)

var scalarTypes = map[string]reflect.Type{
	"bool":    reflect.TypeFor[bool](),
	"int":     reflect.TypeFor[int](),
	"int8":    reflect.TypeFor[int8](),
	"int16":   reflect.TypeFor[int16](),
	"int32":   reflect.TypeFor[int32](),
	"int64":   reflect.TypeFor[int64](),
	"uint":    reflect.TypeFor[uint](),
	"uint8":   reflect.TypeFor[uint8](),
	"uint16":  reflect.TypeFor[uint16](),
	"uint32":  reflect.TypeFor[uint32](),
	"uint64":  reflect.TypeFor[uint64](),
	"float32": reflect.TypeFor[float32](),
	"float64": reflect.TypeFor[float64](),
	"string":  reflect.TypeFor[string](),
	"bytes":   reflect.TypeFor[[]byte](),
	"time":    TimeType,
	"dur":     DurationType,
	"any":     AnyType,
	"raw":     ValueType,
}

// IsInt etc. classify scalar kind names.
func IsInt(k string) bool {
	return k == "int" || k == "int8" || k == "int16" || k == "int32" || k == "int64"
}
func IsUint(k string) bool {
	return k == "uint" || k == "uint8" || k == "uint16" || k == "uint32" || k == "uint64"
}
func IsFloat(k string) bool { return k == "float32" || k == "float64" }

// Bits returns the width of a numeric kind.
func Bits(k string) int {
	switch k {
	case "int8", "uint8":
		return 8
	case "int16", "uint16":
		return 16
	case "int32", "uint32", "float32":
		return 32
	}
	return 64
}

// PoolType is a named Go type (usually with methods) that reflect cannot
// construct; packages register theirs so that descriptions can refer to them
// as kind "pool:<Name>". Under describes how a Val fills it (a struct or
// string description with the same shape as the type's underlying type).
type PoolType struct {
	Name  string
	Type  reflect.Type
	Under *Desc
}

var pool = map[string]PoolType{}

// RegisterPool makes a pool type available (call from init or test setup).
func RegisterPool(p PoolType) { pool[p.Name] = p }

// Pool looks up a registered pool type by kind name ("pool:Name").
func Pool(kind string) (PoolType, bool) {
	p, ok := pool[strings.TrimPrefix(kind, "pool:")]
	return p, ok && strings.HasPrefix(kind, "pool:")
}

var (
	buildMu    sync.Mutex
	buildCache = map[string]reflect.Type{}
)

// Key returns a canonical string for d (used for caching and fingerprints).
func (d *Desc) Sig() string {
	var sb strings.Builder
	d.key(&sb)
	return sb.String()
}

func (d *Desc) key(sb *strings.Builder) {
	if d == nil {
		sb.WriteString("<nil>")
		return
	}
	sb.WriteString(d.K)
	switch d.K {
	case "array", "bytearr":
		fmt.Fprintf(sb, "[%d]", d.Len)
		if d.K == "array" {
			d.Elem.key(sb)
		}
	case "slice", "ptr":
		sb.WriteByte('(')
		d.Elem.key(sb)
		sb.WriteByte(')')
	case "map":
		sb.WriteByte('[')
		d.Key.key(sb)
		sb.WriteByte(']')
		d.Elem.key(sb)
	case "struct":
		fmt.Fprintf(sb, "#%d{", d.ID)
		for _, f := range d.Fields {
			if f.Embedded {
				sb.WriteString("embed ")
			}
			sb.WriteString(f.Name)
			sb.WriteByte(' ')
			f.T.key(sb)
			if f.HasTag || f.Tag != "" {
				sb.WriteString(" `" + f.Tag + "`")
			}
			sb.WriteByte(';')
		}
		sb.WriteByte('}')
	}
}

// Build realises d as a reflect.Type. It returns an error (never panics) if
// reflect cannot construct the type.
func Build(d *Desc) (t reflect.Type, err error) {
	defer func() {
		if r := recover(); r != nil {
			t, err = nil, fmt.Errorf("tv.Build: %v", r)
		}
	}()
	return build(d)
}

func build(d *Desc) (reflect.Type, error) {
	if d == nil {
		return nil, fmt.Errorf("nil desc")
	}
	if t, ok := scalarTypes[d.K]; ok {
		return t, nil
	}
	if p, ok := Pool(d.K); ok {
		return p.Type, nil
	}
	switch d.K {
	case "bytearr":
		return reflect.ArrayOf(d.Len, reflect.TypeFor[byte]()), nil
	case "slice":
		e, err := build(d.Elem)
		if err != nil {
			return nil, err
		}
		return reflect.SliceOf(e), nil
	case "array":
		e, err := build(d.Elem)
		if err != nil {
			return nil, err
		}
		return reflect.ArrayOf(d.Len, e), nil
	case "ptr":
		e, err := build(d.Elem)
		if err != nil {
			return nil, err
		}
		return reflect.PointerTo(e), nil
	case "map":
		k, err := build(d.Key)
		if err != nil {
			return nil, err
		}
		e, err := build(d.Elem)
		if err != nil {
			return nil, err
		}
		return reflect.MapOf(k, e), nil
	case "struct":
		key := d.Sig()
		buildMu.Lock()
		if t, ok := buildCache[key]; ok {
			buildMu.Unlock()
			return t, nil
		}
		buildMu.Unlock()
		var sfs []reflect.StructField
		for _, f := range d.Fields {
			ft, err := build(f.T)
			if err != nil {
				return nil, err
			}
			sf := reflect.StructField{Name: f.Name, Type: ft, Anonymous: f.Embedded}
			if f.HasTag || f.Tag != "" {
				sf.Tag = reflect.StructTag("json:" + strconv.Quote(f.Tag))
			}
			sfs = append(sfs, sf)
		}
		if d.ID != 0 {
			sfs = append(sfs, reflect.StructField{Name: fmt.Sprintf("Marker%d", d.ID), Type: reflect.TypeFor[struct{}](), Tag: `json:"-"`})
		}
		t := reflect.StructOf(sfs)
		buildMu.Lock()
		buildCache[key] = t
		buildMu.Unlock()
		return t, nil
	}
	return nil, fmt.Errorf("tv.Build: unknown kind %q", d.K)
}

// Walk calls f for d and every nested description.
func (d *Desc) Walk(f func(*Desc)) {
	if d == nil {
		return
	}
	f(d)
	d.Key.Walk(f)
	d.Elem.Walk(f)
	for i := range d.Fields {
		d.Fields[i].T.Walk(f)
	}
}

// Depth returns the nesting depth of the description.
func (d *Desc) Depth() int {
	if d == nil {
		return 0
	}
	m := 0
	if x := d.Elem.Depth(); x > m {
		m = x
	}
	if x := d.Key.Depth(); x > m {
		m = x
	}
	for i := range d.Fields {
		if x := d.Fields[i].T.Depth(); x > m {
			m = x
		}
	}
	return m + 1
}

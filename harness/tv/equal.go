package tv

import (
	"bytes"
	"fmt"
	"math"
	"reflect"
	"time"
)

// EqOpt tunes Equal.
type EqOpt struct {
	NilEqualsEmpty bool // nil and empty slices/maps are identified
	// NilEqualsZeroish identifies a nil pointer/interface with a non-nil one
	// whose content is deeply zero (zero value, nil, empty containers): JSON
	// cannot distinguish them when the content emits null or nothing.
	NilEqualsZeroish bool
}

// Zeroish reports whether v is deeply zero: the zero value, or pointers /
// interfaces / containers holding nothing but zeroish content.
func Zeroish(v reflect.Value) bool {
	if !v.IsValid() || v.IsZero() {
		return true
	}
	switch v.Kind() {
	case reflect.Pointer, reflect.Interface:
		return Zeroish(v.Elem())
	case reflect.Slice, reflect.Map:
		return v.Len() == 0
	case reflect.Struct:
		for i := 0; i < v.NumField(); i++ {
			if !Zeroish(v.Field(i)) {
				return false
			}
		}
		return true
	case reflect.Array:
		for i := 0; i < v.Len(); i++ {
			if !Zeroish(v.Index(i)) {
				return false
			}
		}
		return true
	}
	return false
}

// Equal compares two values of the same static type deeply: floats by bit
// pattern, times by instant, nil vs empty containers per opt. It returns a
// description of the first difference or "".
func Equal(a, b reflect.Value, o EqOpt) string {
	return eq(a, b, o, "")
}

func eq(a, b reflect.Value, o EqOpt, path string) string {
	if a.IsValid() != b.IsValid() {
		return fmt.Sprintf("%s: validity differs", path)
	}
	if !a.IsValid() {
		return ""
	}
	if a.Type() != b.Type() {
		return fmt.Sprintf("%s: type %v vs %v", path, a.Type(), b.Type())
	}
	if a.Type() == TimeType {
		ta, tb := a.Interface().(time.Time), b.Interface().(time.Time)
		if !ta.Equal(tb) {
			return fmt.Sprintf("%s: time %v vs %v", path, ta.UTC().Format(time.RFC3339Nano), tb.UTC().Format(time.RFC3339Nano))
		}
		return ""
	}
	switch a.Kind() {
	case reflect.Bool:
		if a.Bool() != b.Bool() {
			return fmt.Sprintf("%s: %v vs %v", path, a.Bool(), b.Bool())
		}
	case reflect.Int, reflect.Int8, reflect.Int16, reflect.Int32, reflect.Int64:
		if a.Int() != b.Int() {
			return fmt.Sprintf("%s: %d vs %d", path, a.Int(), b.Int())
		}
	case reflect.Uint, reflect.Uint8, reflect.Uint16, reflect.Uint32, reflect.Uint64, reflect.Uintptr:
		if a.Uint() != b.Uint() {
			return fmt.Sprintf("%s: %d vs %d", path, a.Uint(), b.Uint())
		}
	case reflect.Float32, reflect.Float64:
		if math.Float64bits(a.Float()) != math.Float64bits(b.Float()) {
			return fmt.Sprintf("%s: float %v (%#x) vs %v (%#x)", path, a.Float(), math.Float64bits(a.Float()), b.Float(), math.Float64bits(b.Float()))
		}
	case reflect.String:
		if a.String() != b.String() {
			return fmt.Sprintf("%s: %q vs %q", path, a.String(), b.String())
		}
	case reflect.Pointer:
		if a.IsNil() != b.IsNil() {
			if o.NilEqualsZeroish && Zeroish(a) && Zeroish(b) {
				return ""
			}
			return fmt.Sprintf("%s: nil pointer %v vs %v", path, a.IsNil(), b.IsNil())
		}
		if !a.IsNil() {
			return eq(a.Elem(), b.Elem(), o, path+".*")
		}
	case reflect.Interface:
		if a.IsNil() != b.IsNil() {
			if o.NilEqualsZeroish && Zeroish(a) && Zeroish(b) {
				return ""
			}
			return fmt.Sprintf("%s: nil interface %v vs %v", path, a.IsNil(), b.IsNil())
		}
		if !a.IsNil() {
			return eq(a.Elem(), b.Elem(), o, path+".(iface)")
		}
	case reflect.Slice:
		if a.Type().Elem().Kind() == reflect.Uint8 {
			if (!o.NilEqualsEmpty && a.IsNil() != b.IsNil()) || !bytes.Equal(a.Bytes(), b.Bytes()) {
				return fmt.Sprintf("%s: bytes %q (nil=%v) vs %q (nil=%v)", path, a.Bytes(), a.IsNil(), b.Bytes(), b.IsNil())
			}
			return ""
		}
		if !o.NilEqualsEmpty && a.IsNil() != b.IsNil() {
			return fmt.Sprintf("%s: nil slice %v vs %v", path, a.IsNil(), b.IsNil())
		}
		if a.Len() != b.Len() {
			return fmt.Sprintf("%s: len %d vs %d", path, a.Len(), b.Len())
		}
		for i := 0; i < a.Len(); i++ {
			if d := eq(a.Index(i), b.Index(i), o, fmt.Sprintf("%s[%d]", path, i)); d != "" {
				return d
			}
		}
	case reflect.Array:
		for i := 0; i < a.Len(); i++ {
			if d := eq(a.Index(i), b.Index(i), o, fmt.Sprintf("%s[%d]", path, i)); d != "" {
				return d
			}
		}
	case reflect.Map:
		if !o.NilEqualsEmpty && a.IsNil() != b.IsNil() {
			return fmt.Sprintf("%s: nil map %v vs %v", path, a.IsNil(), b.IsNil())
		}
		if a.Len() != b.Len() {
			return fmt.Sprintf("%s: map len %d vs %d", path, a.Len(), b.Len())
		}
		it := a.MapRange()
		for it.Next() {
			bv := b.MapIndex(it.Key())
			if !bv.IsValid() {
				// float keys such as -0/+0 compare equal as map keys; NaN keys never match
				return fmt.Sprintf("%s: key %v missing on the right", path, it.Key())
			}
			if d := eq(it.Value(), bv, o, fmt.Sprintf("%s[%v]", path, it.Key())); d != "" {
				return d
			}
		}
	case reflect.Struct:
		for i := 0; i < a.NumField(); i++ {
			if !a.Type().Field(i).IsExported() {
				continue
			}
			if d := eq(a.Field(i), b.Field(i), o, path+"."+a.Type().Field(i).Name); d != "" {
				return d
			}
		}
	default:
		return fmt.Sprintf("%s: unsupported kind %v", path, a.Kind())
	}
	return ""
}

package tv

import (
	"encoding/base64"
	"math"
	"math/big"
	"reflect"
	"strings"
	"time"

	"verif/harness/ref"
)

// DecodeOpt tunes RefDecode.
type DecodeOpt struct {
	AnyLen bool // UnmarshalArrayFromAnyLength: short arrays are zero-filled (longer ones are not modelled)
}

// RefDecode is a reference model of Unmarshal into a ZERO value: it builds,
// from the parse tree n of text in, the Go value of description d that the
// Unmarshal documentation prescribes under default (v2) options, for texts
// of the shape produced by GenJSON. ok is false whenever the model does not
// cover the situation (kind mismatch, out-of-range number, bad base64,
// case-insensitive matching, raw-value fallback, ...): callers then make no
// claim. It never calls the code under test.
func RefDecode(d *Desc, in []byte, n *ref.Node, o DecodeOpt) (rv reflect.Value, ok bool) {
	defer func() {
		if r := recover(); r != nil {
			ok = false
		}
	}()
	t, err := Build(d)
	if err != nil {
		return reflect.Value{}, false
	}
	rv = reflect.New(t).Elem()
	if !refDecodeInto(d, rv, in, n, o) {
		return reflect.Value{}, false
	}
	return rv, true
}

func intLit(lit string) (*big.Int, bool) {
	if strings.ContainsAny(lit, ".eE") {
		return nil, false
	}
	v, ok := new(big.Int).SetString(lit, 10)
	return v, ok
}

func refDecodeInto(d *Desc, rv reflect.Value, in []byte, n *ref.Node, o DecodeOpt) bool {
	if p, ok := Pool(d.K); ok {
		_ = p
		return false
	}
	if n.Kind == 'n' {
		if d.K == "raw" {
			return false // not modelled
		}
		rv.SetZero()
		return true
	}
	lit := string(in[n.Start:n.End])
	switch {
	case d.K == "bool":
		if n.Kind != 't' && n.Kind != 'f' {
			return false
		}
		rv.SetBool(n.Kind == 't')
	case IsInt(d.K):
		if n.Kind != '0' {
			return false
		}
		v, ok := intLit(lit)
		if !ok || !v.IsInt64() || rv.OverflowInt(v.Int64()) {
			return false
		}
		rv.SetInt(v.Int64())
	case IsUint(d.K):
		if n.Kind != '0' || strings.HasPrefix(lit, "-") {
			return false
		}
		v, ok := intLit(lit)
		if !ok || !v.IsUint64() || rv.OverflowUint(v.Uint64()) {
			return false
		}
		rv.SetUint(v.Uint64())
	case IsFloat(d.K):
		if n.Kind != '0' {
			return false
		}
		f, over := ref.RoundFloat(lit, Bits(d.K))
		if over {
			return false
		}
		rv.SetFloat(f)
	case d.K == "string":
		if n.Kind != '"' || !n.StrValid {
			return false
		}
		rv.SetString(n.Str)
	case d.K == "bytes":
		if n.Kind != '"' {
			return false
		}
		b, err := base64.StdEncoding.Strict().DecodeString(n.Str)
		if err != nil {
			return false
		}
		if b == nil {
			b = []byte{}
		}
		rv.SetBytes(b)
	case d.K == "bytearr":
		if n.Kind != '"' {
			return false
		}
		b, err := base64.StdEncoding.Strict().DecodeString(n.Str)
		if err != nil || len(b) > d.Len || (len(b) < d.Len && !o.AnyLen) {
			return false
		}
		for i := 0; i < d.Len; i++ {
			if i < len(b) {
				rv.Index(i).SetUint(uint64(b[i]))
			} else {
				rv.Index(i).SetUint(0)
			}
		}
	case d.K == "time":
		if n.Kind != '"' {
			return false
		}
		tm, err := time.Parse(time.RFC3339, n.Str)
		if err != nil {
			return false
		}
		rv.Set(reflect.ValueOf(tm))
	case d.K == "dur":
		return false
	case d.K == "raw":
		rv.SetBytes(append([]byte(nil), in[n.Start:n.End]...))
	case d.K == "any":
		v, ok := refAny(in, n)
		if !ok {
			return false
		}
		if v != nil {
			rv.Set(reflect.ValueOf(v))
		}
	case d.K == "ptr":
		p := reflect.New(rv.Type().Elem())
		if !refDecodeInto(d.Elem, p.Elem(), in, n, o) {
			return false
		}
		rv.Set(p)
	case d.K == "slice":
		if n.Kind != '[' {
			return false
		}
		s := reflect.MakeSlice(rv.Type(), len(n.Elems), len(n.Elems))
		for i, e := range n.Elems {
			if !refDecodeInto(d.Elem, s.Index(i), in, e, o) {
				return false
			}
		}
		rv.Set(s)
	case d.K == "array":
		if n.Kind != '[' || len(n.Elems) > d.Len || (len(n.Elems) < d.Len && !o.AnyLen) {
			return false
		}
		rv.SetZero()
		for i, e := range n.Elems {
			if !refDecodeInto(d.Elem, rv.Index(i), in, e, o) {
				return false
			}
		}
	case d.K == "map":
		if n.Kind != '{' {
			return false
		}
		m := reflect.MakeMap(rv.Type())
		for _, mem := range n.Members {
			if !mem.Name.StrValid {
				return false
			}
			k := reflect.New(rv.Type().Key()).Elem()
			switch {
			case d.Key.K == "string":
				k.SetString(mem.Name.Str)
			case IsInt(d.Key.K):
				v, ok := intLit(mem.Name.Str)
				if !ok || !v.IsInt64() || k.OverflowInt(v.Int64()) || v.String() != mem.Name.Str {
					return false
				}
				k.SetInt(v.Int64())
			case IsUint(d.Key.K):
				v, ok := intLit(mem.Name.Str)
				if !ok || !v.IsUint64() || k.OverflowUint(v.Uint64()) || v.String() != mem.Name.Str {
					return false
				}
				k.SetUint(v.Uint64())
			default:
				return false
			}
			if m.MapIndex(k).IsValid() {
				return false // duplicate key
			}
			e := reflect.New(rv.Type().Elem()).Elem()
			if !refDecodeInto(d.Elem, e, in, mem.Value, o) {
				return false
			}
			m.SetMapIndex(k, e)
		}
		rv.Set(m)
	case d.K == "struct":
		if n.Kind != '{' {
			return false
		}
		seen := map[string]bool{}
		for _, mem := range n.Members {
			if !mem.Name.StrValid || seen[mem.Name.Str] {
				return false
			}
			seen[mem.Name.Str] = true
			fd, path, amb, insensitive := locate(d, mem.Name.Str)
			if amb || insensitive {
				return false
			}
			if fd == nil {
				// unknown member: ignored, or stored into a map fallback
				fbD, fbPath := fallbackPath(d)
				if fbD == nil {
					continue
				}
				if fbD.K != "map" {
					return false
				}
				fv := walkPath(rv, fbPath)
				if fv.IsNil() {
					fv.Set(reflect.MakeMap(fv.Type()))
				}
				e := reflect.New(fv.Type().Elem()).Elem()
				if !refDecodeInto(fbD.Elem, e, in, mem.Value, o) {
					return false
				}
				k := reflect.New(fv.Type().Key()).Elem()
				k.SetString(mem.Name.Str)
				fv.SetMapIndex(k, e)
				continue
			}
			fv := walkPath(rv, path)
			if !refDecodeInto(fd, fv, in, mem.Value, o) {
				return false
			}
		}
	default:
		return false
	}
	return true
}

func refAny(in []byte, n *ref.Node) (any, bool) {
	switch n.Kind {
	case 'n':
		return nil, true
	case 't':
		return true, true
	case 'f':
		return false, true
	case '"':
		if !n.StrValid {
			return nil, false
		}
		return n.Str, true
	case '0':
		f, over := ref.RoundFloat(string(in[n.Start:n.End]), 64)
		if over || math.IsInf(f, 0) {
			return nil, false
		}
		return f, true
	case '[':
		out := make([]any, 0, len(n.Elems))
		for _, e := range n.Elems {
			v, ok := refAny(in, e)
			if !ok {
				return nil, false
			}
			out = append(out, v)
		}
		return out, true
	case '{':
		out := map[string]any{}
		for _, m := range n.Members {
			if _, dup := out[m.Name.Str]; dup || !m.Name.StrValid {
				return nil, false
			}
			v, ok := refAny(in, m.Value)
			if !ok {
				return nil, false
			}
			out[m.Name.Str] = v
		}
		return out, true
	}
	return nil, false
}

type locItem struct {
	d    *Desc
	path []int
}

// locate resolves an exact member name to a field by breadth-first search
// over embedded structs. insensitive is set when no exact match exists but a
// field that requests case-insensitive matching could match (not modelled).
func locate(d *Desc, name string) (fd *Desc, path []int, ambiguous, insensitive bool) {
	level := []locItem{{d, nil}}
	folded := false
	for len(level) > 0 {
		var next []locItem
		var found []locItem
		for _, it := range level {
			for i := range it.d.Fields {
				fl := &it.d.Fields[i]
				p := append(append([]int(nil), it.path...), i)
				if fl.Embedded || fl.HasOpt("embed") {
					inner := fl.T
					for inner.K == "ptr" {
						inner = inner.Elem
					}
					if inner.K == "struct" {
						next = append(next, locItem{inner, p})
						continue
					}
					if fl.HasOpt("embed") {
						continue
					}
				}
				if n, ok := fl.JSONName(); ok {
					if n == name {
						found = append(found, locItem{fl.T, p})
					} else if fl.HasOpt("case:ignore") && foldName(n) == foldName(name) {
						folded = true
					}
				}
			}
		}
		if len(found) == 1 {
			return found[0].d, found[0].path, false, false
		}
		if len(found) > 1 {
			return nil, nil, true, false
		}
		level = next
	}
	return nil, nil, false, folded
}

func foldName(s string) string {
	var sb strings.Builder
	for _, c := range strings.ToLower(s) {
		if c != '_' && c != '-' {
			sb.WriteRune(c)
		}
	}
	return sb.String()
}

func fallbackPath(d *Desc) (*Desc, []int) {
	level := []locItem{{d, nil}}
	for len(level) > 0 {
		var next []locItem
		var found []locItem
		for _, it := range level {
			for i := range it.d.Fields {
				fl := &it.d.Fields[i]
				if !(fl.Embedded || fl.HasOpt("embed")) {
					continue
				}
				p := append(append([]int(nil), it.path...), i)
				inner := fl.T
				for inner.K == "ptr" {
					inner = inner.Elem
				}
				switch {
				case inner.K == "struct":
					next = append(next, locItem{inner, p})
				case fl.HasOpt("embed"):
					found = append(found, locItem{fl.T, p})
				}
			}
		}
		if len(found) == 1 {
			return found[0].d, found[0].path
		}
		if len(found) > 1 {
			return nil, nil
		}
		level = next
	}
	return nil, nil
}

// walkPath follows struct field indexes, allocating embedded pointers.
func walkPath(rv reflect.Value, path []int) reflect.Value {
	for _, i := range path {
		for rv.Kind() == reflect.Pointer {
			if rv.IsNil() {
				rv.Set(reflect.New(rv.Type().Elem()))
			}
			rv = rv.Elem()
		}
		rv = rv.Field(i)
	}
	return rv
}

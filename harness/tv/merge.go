package tv

import (
	"verif/harness/ref"
)

// FieldFor resolves a JSON member name to the field of struct d that default
// (case-sensitive) unmarshaling stores it into, following Go embedding:
// the shallowest field with that exact name. Ambiguities (same depth) return nil
// and make the case be skipped.
func FieldFor(d *Desc, name string) (f *Desc, ambiguous bool) {
	type item struct{ d *Desc }
	level := []item{{d}}
	for len(level) > 0 {
		var next []item
		var found []*Desc
		for _, it := range level {
			for i := range it.d.Fields {
				fl := &it.d.Fields[i]
				if fl.Embedded || fl.HasOpt("embed") {
					inner := fl.T
					for inner.K == "ptr" {
						inner = inner.Elem
					}
					if inner.K == "struct" {
						next = append(next, item{inner})
						continue
					}
					if fl.HasOpt("embed") {
						continue
					}
				}
				if n, ok := fl.JSONName(); ok && n == name {
					found = append(found, fl.T)
				}
			}
		}
		if len(found) == 1 {
			return found[0], false
		}
		if len(found) > 1 {
			return nil, true
		}
		level = next
	}
	return nil, false
}

// Merger computes type-directed merges of JSON texts (documented Unmarshal
// semantics) and counts what it met.
type Merger struct {
	Overlaps    int  // members present on both sides at a known position
	RawFallback bool // an unknown member went to a jsontext.Value fallback
	Ambiguous   bool // a name resolved to several fields at one depth: result not meaningful
}

var popt = ref.Opt{AllowInvalidUTF8: true, AllowDup: true}

// Merge computes the type-directed merge of value na (text a) and nb (text b)
// for a destination of description d. d == nil means "unknown member /
// inside a replaced region": the b side wins.
func (m *Merger) Merge(d *Desc, a []byte, na *ref.Node, b []byte, nb *ref.Node) []byte {
	raw := func() []byte { return append([]byte(nil), b[nb.Start:nb.End]...) }
	if d == nil || na == nil || na.Kind != '{' || nb.Kind != '{' {
		return raw()
	}
	for d.K == "ptr" {
		d = d.Elem
	}
	var child func(name string) *Desc
	switch d.K {
	case "struct":
		child = func(name string) *Desc {
			f, amb := FieldFor(d, name)
			if amb {
				m.Ambiguous = true
			}
			if f == nil {
				// unknown member: stored into the embedded fallback, if any
				if fb := Fallback(d); fb != nil && fb.K == "map" {
					return fb.Elem
				} else if fb != nil {
					m.RawFallback = true
				}
			}
			return f
		}
	case "map":
		child = func(string) *Desc { return d.Elem }
	case "any":
		anyDesc := &Desc{K: "any"}
		child = func(string) *Desc { return anyDesc }
	default:
		return raw()
	}
	buf := []byte{'{'}
	used := make([]bool, len(nb.Members))
	first := true
	emit := func(name []byte) {
		if !first {
			buf = append(buf, ',')
		}
		first = false
		buf = append(buf, name...)
		buf = append(buf, ':')
	}
	for _, ma := range na.Members {
		emit(a[ma.Name.Start:ma.Name.End])
		cur, curNode := a, ma.Value
		matched := false
		for j, mb := range nb.Members {
			if mb.Name.Str != ma.Name.Str {
				continue
			}
			used[j], matched = true, true
			if child(mb.Name.Str) != nil {
				m.Overlaps++
			}
			tmp := m.Merge(child(mb.Name.Str), cur, curNode, b, mb.Value)
			n, err := ref.Parse(tmp, popt)
			if err != nil {
				m.Ambiguous = true
				return raw()
			}
			cur, curNode = tmp, n
		}
		_ = matched
		buf = append(buf, cur[curNode.Start:curNode.End]...)
	}
	for j, mb := range nb.Members {
		if used[j] {
			continue
		}
		emit(b[mb.Name.Start:mb.Name.End])
		buf = append(buf, b[mb.Value.Start:mb.Value.End]...)
	}
	return append(buf, '}')
}

// Fallback returns the description of the struct's dominant embedded fallback
// field (a map or raw value carrying the `embed` option at the shallowest
// depth), or nil.
func Fallback(d *Desc) *Desc {
	level := []*Desc{d}
	for len(level) > 0 {
		var next []*Desc
		var found []*Desc
		for _, it := range level {
			for i := range it.Fields {
				fl := &it.Fields[i]
				if !(fl.Embedded || fl.HasOpt("embed")) {
					continue
				}
				inner := fl.T
				for inner.K == "ptr" {
					inner = inner.Elem
				}
				switch {
				case inner.K == "struct":
					next = append(next, inner)
				case fl.HasOpt("embed"):
					found = append(found, fl.T)
				}
			}
		}
		if len(found) == 1 {
			return found[0]
		}
		if len(found) > 1 {
			return nil
		}
		level = next
	}
	return nil
}

// JSONPos is one value position of a text matched against a description.
type JSONPos struct {
	D      *Desc     // description of the Go destination (nil: unknown member / inside a skipped or raw region)
	N      *ref.Node // the value node
	InRaw  bool      // the position lies inside a jsontext.Value destination (kept verbatim)
	Depth  int       // nesting depth of the node
	Folded bool      // reached through a struct field (as opposed to map entry / any)
}

// WalkJSON matches the parsed text against d under default (case-sensitive)
// matching and calls f for every value position, outermost first.
func WalkJSON(d *Desc, n *ref.Node, f func(p JSONPos)) { walkJSON(d, n, false, 0, f) }

func walkJSON(d *Desc, n *ref.Node, inRaw bool, depth int, f func(p JSONPos)) {
	for d != nil && d.K == "ptr" {
		d = d.Elem
	}
	if d != nil && d.K == "raw" {
		inRaw = true
	}
	f(JSONPos{D: d, N: n, InRaw: inRaw, Depth: depth})
	switch n.Kind {
	case '[':
		var e *Desc
		if d != nil && (d.K == "slice" || d.K == "array" || d.K == "any") {
			e = d.Elem
			if d.K == "any" {
				e = d
			}
		}
		for _, c := range n.Elems {
			walkJSON(e, c, inRaw, depth+1, f)
		}
	case '{':
		for _, m := range n.Members {
			var c *Desc
			if d != nil {
				switch d.K {
				case "struct":
					c, _ = FieldFor(d, m.Name.Str)
					if c == nil {
						if fb := Fallback(d); fb != nil {
							if fb.K == "map" {
								c = fb.Elem
							} else {
								walkJSON(nil, m.Value, true, depth+1, f)
								continue
							}
						}
					}
				case "map":
					c = d.Elem
				case "any":
					c = d
				}
			}
			walkJSON(c, m.Value, inRaw, depth+1, f)
		}
	}
}

package tv

import (
	"fmt"
	"math"
	"strings"

	"pgregory.net/rapid"
)

// Cfg tunes the type generator.
type Cfg struct {
	MaxDepth     int                           // nesting of containers (default 3)
	MaxFields    int                           // fields per struct (default 5)
	Leaves       []string                      // allowed leaf kinds (default: all scalars, string, bytes, bytearr)
	Containers   []string                      // allowed container kinds among slice array map ptr struct any (default all)
	MapKeys      []string                      // allowed map key kinds (default string + ints + uints)
	Tags         bool                          // random names / omitzero / omitempty / string / case options
	Formats      bool                          // format: tag options (caller must pass ExperimentalSupportFormatTag(true))
	Embedding    bool                          // Go-embedded structs and pointers to structs
	BigStructs   bool                          // occasionally 65..140 fields
	EscapeNames  bool                          // JSON names needing escapes
	TimeKinds    bool                          // time.Time and time.Duration leaves (Duration only with a format or legacy option)
	DurNoFormat  bool                          // allow time.Duration without a format tag (v1 FormatDurationAsNano semantics)
	Raw          bool                          // jsontext.Value leaves
	TopStruct    bool                          // force a struct at the top
	CollideNames bool                          // let JSON names of embedded structs collide with outer names (C15)
	PoolLeaves   []string                      // pool kinds ("pool:Name") usable as leaves
	PoolKeys     []string                      // pool kinds usable as map keys
	PoolGen      map[string]func(*rapid.T) Val // value generators for pool kinds
	Fallbacks    bool                          // occasionally add an `embed` fallback field (map[string]T or jsontext.Value)
	EmbedPc      int                           // probability (percent) that a struct field is an embedded struct (default 14)
	LegacyString bool                          // allow the `string` option on bool/string fields too (valid only with v1 semantics)
}

var allLeaves = []string{"bool", "int", "int8", "int16", "int32", "int64", "uint", "uint8", "uint16", "uint32", "uint64", "float32", "float64", "string", "string", "bytes", "bytearr"}
var allContainers = []string{"slice", "array", "map", "ptr", "struct", "struct", "any"}
var allMapKeys = []string{"string", "string", "int", "int8", "int64", "uint", "uint8", "uint64"}

var plainNames = []string{"a", "b", "c", "name", "id", "value", "key", "x", "y", "A", "B", "Name", "ID", "fooBar", "foo_bar", "foo-bar", "FOO", "0", "1", "é", "日本", "😀", "k", "v", "data", "n"}
var escNames = []string{"a<b", "x>y", "a&b", "tab\there", "nl\nx", "null\x00byte", " ", " ", "\x7f", "sp ace", "", "~", "/", "a/b", "~0", "\U00010000", "", "￿"}

func pick(t *rapid.T, label string, xs []string) string {
	return rapid.SampledFrom(xs).Draw(t, label)
}

// GenDesc draws a type description.
func GenDesc(t *rapid.T, cfg Cfg) *Desc {
	if cfg.MaxDepth == 0 {
		cfg.MaxDepth = 3
	}
	if cfg.MaxFields == 0 {
		cfg.MaxFields = 5
	}
	if cfg.Leaves == nil {
		cfg.Leaves = allLeaves
	}
	if cfg.Containers == nil {
		cfg.Containers = allContainers
	}
	if cfg.MapKeys == nil {
		cfg.MapKeys = allMapKeys
	}
	g := &descGen{t: t, cfg: cfg}
	if cfg.TopStruct {
		return g.strct(cfg.MaxDepth)
	}
	return g.desc(cfg.MaxDepth)
}

type descGen struct {
	t   *rapid.T
	cfg Cfg
	n   int
}

func (g *descGen) leaf() *Desc {
	t := g.t
	ks := g.cfg.Leaves
	k := pick(t, "leaf", ks)
	if g.cfg.TimeKinds && rapid.IntRange(0, 7).Draw(t, "timeleaf") == 0 {
		k = "time"
	}
	if g.cfg.Raw && rapid.IntRange(0, 12).Draw(t, "rawleaf") == 0 {
		k = "raw"
	}
	if len(g.cfg.PoolLeaves) > 0 && rapid.IntRange(0, 2).Draw(t, "poolleaf") == 0 {
		k = pick(t, "poolkind", g.cfg.PoolLeaves)
	}
	d := &Desc{K: k}
	if k == "bytearr" {
		d.Len = rapid.IntRange(0, 5).Draw(t, "balen")
	}
	return d
}

func (g *descGen) desc(depth int) *Desc {
	t := g.t
	if depth <= 0 || rapid.IntRange(0, 9).Draw(t, "leaf?") < 4 {
		return g.leaf()
	}
	switch pick(t, "container", g.cfg.Containers) {
	case "slice":
		return &Desc{K: "slice", Elem: g.desc(depth - 1)}
	case "array":
		return &Desc{K: "array", Len: rapid.IntRange(0, 3).Draw(t, "alen"), Elem: g.desc(depth - 1)}
	case "map":
		key := &Desc{K: pick(t, "mapkey", g.cfg.MapKeys)}
		if len(g.cfg.PoolKeys) > 0 && rapid.IntRange(0, 2).Draw(t, "poolkey") == 0 {
			key = &Desc{K: pick(t, "poolkeykind", g.cfg.PoolKeys)}
		}
		return &Desc{K: "map", Key: key, Elem: g.desc(depth - 1)}
	case "ptr":
		return &Desc{K: "ptr", Elem: g.desc(depth - 1)}
	case "any":
		return &Desc{K: "any"}
	default:
		return g.strct(depth)
	}
}

func tagFor(name string, hasName bool, opts []string) string {
	s := ""
	if hasName {
		s = name
	}
	for _, o := range opts {
		s += "," + o
	}
	return s
}

// FormatsFor lists format tag values applicable to a kind.
func FormatsFor(k string) []string {
	switch k {
	case "bytes", "bytearr":
		return []string{"base64", "base64url", "base32", "base32hex", "base16", "hex", "array"}
	case "float32", "float64":
		return []string{"nonfinite"}
	case "slice", "map":
		return []string{"emitnull", "emitempty"}
	case "time":
		return []string{"unix", "unixmilli", "unixmicro", "unixnano", "RFC3339", "RFC3339Nano", "RFC1123", "RFC1123Z", "RFC822Z", "RFC850", "ANSIC", "UnixDate", "RubyDate", "DateTime", "DateOnly", "TimeOnly", "Kitchen", "Stamp", "StampMilli", "StampMicro", "StampNano", "'2006-01-02T15:04:05.000Z07:00'"}
	case "dur":
		return []string{"sec", "milli", "micro", "nano", "units", "iso8601"}
	}
	return nil
}

func underlyingForFormat(d *Desc) string {
	for d.K == "ptr" {
		d = d.Elem
	}
	if d.K == "slice" && d.Elem.K == "uint8" {
		return "bytes"
	}
	if d.K == "array" && d.Elem.K == "uint8" {
		return "bytearr"
	}
	return d.K
}

func (g *descGen) strct(depth int) *Desc { return g.strctIn(depth, map[string]bool{}) }

// strctIn generates a struct whose JSON names avoid those in used (the names
// of the enclosing flattening scope when the struct is going to be embedded).
func (g *descGen) strctIn(depth int, used map[string]bool) *Desc {
	t := g.t
	g.n++
	d := &Desc{K: "struct", ID: g.n}
	n := rapid.IntRange(0, g.cfg.MaxFields).Draw(t, "nfields")
	big := false
	if g.cfg.BigStructs && rapid.IntRange(0, 25).Draw(t, "big") == 0 {
		n = rapid.SampledFrom([]int{63, 64, 65, 66, 127, 128, 129, 140}).Draw(t, "bign")
		big = true
	}
	for i := 0; i < n; i++ {
		f := Field{Name: fmt.Sprintf("F%d", i)}
		if big {
			f.T = &Desc{K: pick(t, "bigleaf", []string{"int", "string", "bool", "float64"})}
			if g.cfg.Tags && rapid.IntRange(0, 3).Draw(t, "bigtag") == 0 {
				f.Tag, f.HasTag = ",omitzero", true
			}
			d.Fields = append(d.Fields, f)
			continue
		}
		embedPc := g.cfg.EmbedPc
		if embedPc == 0 {
			embedPc = 14
		}
		if g.cfg.Embedding && depth > 1 && rapid.IntRange(0, 99).Draw(t, "embed?") < embedPc {
			scope := used
			if g.cfg.CollideNames {
				scope = map[string]bool{}
			}
			inner := g.strctIn(depth-1, scope)
			// embedded fields need distinct promoted names: prefix inner field names
			for j := range inner.Fields {
				inner.Fields[j].Name = fmt.Sprintf("E%d%s", inner.ID, inner.Fields[j].Name)
			}
			f.Name = fmt.Sprintf("Emb%d", inner.ID)
			f.Embedded = true
			f.T = inner
			if rapid.Bool().Draw(t, "embedptr") {
				f.T = &Desc{K: "ptr", Elem: inner}
			}
			d.Fields = append(d.Fields, f)
			continue
		}
		f.T = g.desc(depth - 1)
		if g.cfg.TimeKinds && g.cfg.Formats && rapid.IntRange(0, 9).Draw(t, "durleaf") == 0 {
			f.T = &Desc{K: "dur"}
		} else if g.cfg.TimeKinds && g.cfg.DurNoFormat && rapid.IntRange(0, 12).Draw(t, "durleaf2") == 0 {
			f.T = &Desc{K: "dur"}
		}
		var opts []string
		name, hasName := f.Name, false
		if g.cfg.Tags {
			if rapid.IntRange(0, 2).Draw(t, "named?") != 0 {
				pool := plainNames
				if g.cfg.EscapeNames && rapid.IntRange(0, 3).Draw(t, "escname?") == 0 {
					pool = escNames
				}
				name, hasName = pick(t, "jsonname", pool), true
				for used[name] {
					name += fmt.Sprint(i)
				}
				if name == "" || name == "-" {
					// an empty tag name means "use the Go name"; "-" means ignore
					name, hasName = f.Name, false
				}
			}
			if rapid.IntRange(0, 4).Draw(t, "omitzero?") == 0 {
				opts = append(opts, "omitzero")
			}
			if rapid.IntRange(0, 4).Draw(t, "omitempty?") == 0 {
				opts = append(opts, "omitempty")
			}
			if rapid.IntRange(0, 5).Draw(t, "string?") == 0 {
				// valid only on numeric kinds (through pointers) under v2 semantics
				sk := underlyingForFormat(f.T)
				if f.T.K == "ptr" && f.T.Elem.K == "ptr" {
					sk = "" // the option is rejected on nested pointers under some legacy flags
				}
				if IsInt(sk) || IsUint(sk) || IsFloat(sk) || (g.cfg.LegacyString && (sk == "bool" || sk == "string")) {
					opts = append(opts, "string")
				}
			}
			if rapid.IntRange(0, 9).Draw(t, "case?") == 0 {
				opts = append(opts, pick(t, "case", []string{"case:ignore", "case:strict"}))
			}
		}
		uk := underlyingForFormat(f.T)
		if uk == "dur" && !g.cfg.DurNoFormat || (g.cfg.Formats && rapid.IntRange(0, 2).Draw(t, "format?") == 0) {
			if fs := FormatsFor(uk); fs != nil && (g.cfg.Formats || uk == "dur") {
				opts = append(opts, "format:"+pick(t, "format", fs))
			}
		}
		used[name] = true
		if hasName || len(opts) > 0 {
			f.Tag, f.HasTag = tagFor(name, hasName, opts), true
		}
		d.Fields = append(d.Fields, f)
	}
	if g.cfg.Fallbacks && !big && rapid.IntRange(0, 3).Draw(t, "fallback?") == 0 {
		ft := &Desc{K: "raw"}
		switch rapid.IntRange(0, 3).Draw(t, "fallbackkind") {
		case 0:
			ft = &Desc{K: "map", Key: &Desc{K: "string"}, Elem: &Desc{K: "any"}}
		case 1:
			ft = &Desc{K: "map", Key: &Desc{K: "string"}, Elem: &Desc{K: "int"}}
		case 2:
			ft = &Desc{K: "map", Key: &Desc{K: "string"}, Elem: g.desc(1)}
		}
		d.Fields = append(d.Fields, Field{Name: fmt.Sprintf("Fb%d", d.ID), Tag: ",embed", HasTag: true, T: ft})
	}
	return d
}

// ValCfg tunes the value generator.
type ValCfg struct {
	BadUTF8         bool                          // strings may be ill-formed UTF-8
	NonFinite       bool                          // floats may be NaN / Inf
	AnyCanonical    bool                          // interface values hold only nil, bool, string, float64, []any, map[string]any
	AnyDescs        Cfg                           // type universe for interface contents when !AnyCanonical
	PoolGen         map[string]func(*rapid.T) Val // value generators for pool kinds
	AnyKeyPool      []string                      // extra kinds for interface-typed map keys
	MaxLen          int                           // max container length (default 3)
	RawInvalid      bool                          // jsontext.Value leaves may hold arbitrary bytes
	TimeWide        bool                          // times outside year 0..9999
	Zones           bool                          // times carry fixed zones with arbitrary (also hostile) names
	ZoneMinutes     bool                          // times carry unnamed fixed zones at whole-minute offsets up to +-23:59
	FallbackCollide bool                          // embedded map fallbacks repeat names of declared members (Marshal must refuse what was written twice)
}

var int64Edges = []int64{0, 1, -1, 2, 7, 10, 100, 127, 128, -128, -129, 255, 256, 32767, 32768, -32768, 65535, 65536, 1<<31 - 1, 1 << 31, -(1 << 31), 1<<32 - 1, 1 << 32, 1<<53 - 1, 1 << 53, 1<<53 + 1, -(1 << 53) - 1, math.MaxInt64, math.MinInt64, math.MaxInt64 - 1, math.MinInt64 + 1, 999999999, 1000000000, 1000000001, -999999999, -1000000000, -1000000001, 9999999999999, 1e15, 1e18, 1e18 + 1, -1e18}
var uint64Edges = []uint64{0, 1, 2, 127, 128, 255, 256, 65535, 65536, 1<<32 - 1, 1 << 32, 1<<53 - 1, 1 << 53, 1<<53 + 1, 1<<63 - 1, 1 << 63, 1<<63 + 1, math.MaxUint64, math.MaxUint64 - 1, 1e19, 9999999999999999999}
var floatEdges = []float64{2e19, 36893488147419103232, 99999999999999983616, 18446744073709551616, 18446744073709555712, 9223372036854775808, 1e19, 0, math.Copysign(0, -1), 1, -1, 0.1, 0.5, 1.5, 1e-7, 1e-6, 9.999999e-7, 1e21, 1e20, 999999999999999900000, 1e22, 1 << 53, 1<<53 + 2, math.MaxFloat64, -math.MaxFloat64, math.SmallestNonzeroFloat64, 2.2250738585072014e-308, math.MaxFloat32, math.SmallestNonzeroFloat32, 3.4028235677973366e38, 16777216, 16777217, 0.30000000000000004, 123456789.12345678, 1e-5, 123e-20, 5e-324, 4.35, 100, 1e15, 1e16, 1e17}
var stringEdges = []string{"", "a", "abc", "hello world", "é", "日本語", "😀", "\x00", "\x1f", "\x7f", "\"", "\\", "/", "<>&", "  ", "\t\n\r\b\f", "null", "true", "0", "-1", "1e5", " ", "�", "\U0010ffff", "퟿", "key", "a\"b\\c", strings.Repeat("x", 70), strings.Repeat("é", 40)}
var badStrings = []string{"\xff", "a\x80b", "\xc0\x80", "\xed\xa0\x80", "\xf4\x90\x80\x80", "\xe2\x82", "ok\xfe", "caf\xc3(", "\xc2\"", "\xdf\\", "\xc3<", "\xe1\x80\"", "\xf0\x90\x80\\"}

// GenVal draws a value for d.
func GenVal(t *rapid.T, d *Desc, vc ValCfg) Val {
	if vc.MaxLen == 0 {
		vc.MaxLen = 3
	}
	g := &valGen{t: t, vc: vc}
	return g.val(d, 6)
}

type valGen struct {
	t  *rapid.T
	vc ValCfg
}

func (g *valGen) str() []byte {
	t := g.t
	switch rapid.IntRange(0, 9).Draw(t, "strclass") {
	case 0, 1, 2, 3, 4:
		return []byte(rapid.SampledFrom(stringEdges).Draw(t, "stredge"))
	case 5:
		if g.vc.BadUTF8 {
			return []byte(rapid.SampledFrom(badStrings).Draw(t, "badstr"))
		}
		return []byte(rapid.SampledFrom(stringEdges).Draw(t, "stredge2"))
	default:
		return []byte(rapid.String().Draw(t, "str"))
	}
}

func (g *valGen) i64() int64 {
	t := g.t
	switch rapid.IntRange(0, 3).Draw(t, "iclass") {
	case 0:
		return rapid.Int64().Draw(t, "i64")
	case 1:
		return int64(rapid.IntRange(-300, 300).Draw(t, "ismall"))
	default:
		return rapid.SampledFrom(int64Edges).Draw(t, "iedge")
	}
}

func (g *valGen) u64() uint64 {
	t := g.t
	switch rapid.IntRange(0, 3).Draw(t, "uclass") {
	case 0:
		return rapid.Uint64().Draw(t, "u64")
	case 1:
		return uint64(rapid.IntRange(0, 300).Draw(t, "usmall"))
	default:
		return rapid.SampledFrom(uint64Edges).Draw(t, "uedge")
	}
}

func (g *valGen) f64() float64 {
	t := g.t
	switch rapid.IntRange(0, 5).Draw(t, "fclass") {
	case 0:
		f := math.Float64frombits(rapid.Uint64().Draw(t, "fbits"))
		if math.IsNaN(f) || math.IsInf(f, 0) {
			if g.vc.NonFinite {
				return f
			}
			return 0
		}
		return f
	case 1:
		return rapid.Float64().Draw(t, "f64")
	case 2:
		if g.vc.NonFinite {
			return rapid.SampledFrom([]float64{math.NaN(), math.Inf(1), math.Inf(-1)}).Draw(t, "nonfinite")
		}
		return float64(rapid.IntRange(-1000, 1000).Draw(t, "fint"))
	default:
		return rapid.SampledFrom(floatEdges).Draw(t, "fedge")
	}
}

func (g *valGen) length() int {
	return rapid.IntRange(0, g.vc.MaxLen).Draw(g.t, "len")
}

var canonAnyKinds = []*Desc{{K: "bool"}, {K: "string"}, {K: "float64"}, {K: "slice", Elem: &Desc{K: "any"}}, {K: "map", Key: &Desc{K: "string"}, Elem: &Desc{K: "any"}}}

func (g *valGen) val(d *Desc, budget int) Val {
	t := g.t
	if _, ok := Pool(d.K); ok {
		if gen := g.vc.PoolGen[d.K]; gen != nil {
			return gen(t)
		}
		return Val{}
	}
	switch {
	case d.K == "bool":
		return Val{B: rapid.Bool().Draw(t, "bool")}
	case IsInt(d.K):
		return Val{I: trunc(g.i64(), Bits(d.K))}
	case IsUint(d.K):
		return Val{U: truncU(g.u64(), Bits(d.K))}
	case d.K == "float32":
		f := float32(g.f64())
		if math.IsInf(float64(f), 0) && !g.vc.NonFinite {
			f = math.MaxFloat32
		}
		return Val{U: uint64(math.Float32bits(f))}
	case d.K == "float64":
		return Val{U: math.Float64bits(g.f64())}
	case d.K == "string":
		return Val{S: g.str()}
	case d.K == "bytes":
		if rapid.IntRange(0, 5).Draw(t, "nilbytes") == 0 {
			return Val{Nil: true}
		}
		return Val{S: rapid.SliceOfN(rapid.Byte(), 0, 12).Draw(t, "bytes")}
	case d.K == "bytearr":
		return Val{S: rapid.SliceOfN(rapid.Byte(), d.Len, d.Len).Draw(t, "bytearr")}
	case d.K == "raw":
		if rapid.IntRange(0, 5).Draw(t, "nilraw") == 0 {
			return Val{Nil: true}
		}
		if g.vc.RawInvalid && rapid.IntRange(0, 2).Draw(t, "rawinvalid") == 0 {
			return Val{S: rapid.SampledFrom([][]byte{[]byte(""), []byte("{"), []byte("1 2"), []byte(`{"a":1,"a":2}`), []byte("\"\xff\""), []byte("nul"), []byte("[1,]"), []byte(" 1 "), []byte("tru"), []byte(`"a"x`)}).Draw(t, "rawbad")}
		}
		return Val{S: []byte(rapid.SampledFrom([]string{"null", "1", `"s"`, "[]", "{}", `{"a":1}`, "[1,2]", ` { "k" : [ true ] } `, "1.50", `"A"`, "-0", "\"\u2028\"", "[\"<\u2029>\"]"}).Draw(t, "rawok"))}
	case d.K == "time":
		var sec int64
		switch rapid.IntRange(0, 3).Draw(t, "timeclass") {
		case 0:
			sec = rapid.Int64Range(-62135596800, 253402300799).Draw(t, "sec") // year 1..9999
		case 1:
			sec = rapid.SampledFrom([]int64{0, 1, -1, 59, 60, 86399, 86400, -86400, 946684800, 1e9, -1e9, 253402300799, -62135596800, -62167219200, 1700000000, 2147483647, 2147483648, -2147483649}).Draw(t, "secedge")
		default:
			sec = int64(rapid.IntRange(-100000, 100000).Draw(t, "secsmall"))
		}
		if g.vc.TimeWide && rapid.IntRange(0, 9).Draw(t, "wide") == 0 {
			sec = rapid.SampledFrom([]int64{253402300800, -62167219201, 1e12, -1e12}).Draw(t, "secwide")
		}
		ns := rapid.SampledFrom([]int64{0, 0, 1, 999, 1000, 999999, 1000000, 999999999, 500000000, 123456789, 100000000, 120000000}).Draw(t, "nsec")
		tv := Val{I: sec, N: ns}
		if g.vc.Zones && rapid.IntRange(0, 2).Draw(t, "zone?") == 0 {
			tv.S = []byte(rapid.SampledFrom([]string{"UTC", "MST", "CEST", "", "Q\"Z", "a\\b", "x\ny", "\xff", "<&>", "é", "+0130", "-07"}).Draw(t, "zonename"))
			tv.U = uint64(int64(rapid.SampledFrom([]int{0, 3600, -25200, 5400, 1, -1, 86399}).Draw(t, "zoneoff")))
			tv.B = true
		}
		if !g.vc.Zones && g.vc.ZoneMinutes && rapid.IntRange(0, 1).Draw(t, "zonemin?") == 0 && sec > -62135510400 && sec < 253402214400 {
			// (a day inside the years 1..9999, so that the local year stays in range)
			tv.S = []byte{}
			tv.U = uint64(int64(rapid.SampledFrom([]int{0, 3600, -25200, 5400, 20700, 43200, -43200, 82800, -82800, 86340, -86340, 50400, 79200, -79200}).Draw(t, "zonemin")))
			tv.B = true
		}
		return tv
	case d.K == "dur":
		return Val{I: g.i64()}
	case d.K == "any":
		if budget <= 0 || rapid.IntRange(0, 4).Draw(t, "nilany") == 0 {
			return Val{Nil: true}
		}
		var dyn *Desc
		if g.vc.AnyCanonical {
			dyn = rapid.SampledFrom(canonAnyKinds).Draw(t, "anykind")
		} else {
			cfg := g.vc.AnyDescs
			cfg.MaxDepth = min(budget-1, 2)
			if cfg.MaxDepth <= 0 {
				cfg.MaxDepth = 1
			}
			dyn = GenDesc(t, cfg)
			for dyn.K == "any" {
				dyn = &Desc{K: "int"}
			}
		}
		inner := g.val(dyn, budget-2)
		if g.vc.AnyCanonical && inner.Nil && (dyn.K == "slice" || dyn.K == "map") {
			// A nil []any / map[string]any held in an interface is not a
			// canonical untyped value (Unmarshal never produces one): empty instead.
			inner.Nil = false
		}
		if dyn.K == "float64" && g.vc.AnyCanonical {
			f := math.Float64frombits(inner.U)
			if math.IsNaN(f) || math.IsInf(f, 0) {
				inner.U = 0
			}
		}
		return Val{Dyn: dyn, Elems: []Val{inner}}
	case d.K == "ptr":
		if budget <= 0 || rapid.IntRange(0, 3).Draw(t, "nilptr") == 0 {
			return Val{Nil: true}
		}
		return Val{Elems: []Val{g.val(d.Elem, budget-1)}}
	case d.K == "slice":
		if rapid.IntRange(0, 5).Draw(t, "nilslice") == 0 {
			return Val{Nil: true}
		}
		n := g.length()
		if budget <= 0 {
			n = 0
		}
		v := Val{Elems: make([]Val, n)}
		for i := range v.Elems {
			v.Elems[i] = g.val(d.Elem, budget-1)
		}
		return v
	case d.K == "array":
		v := Val{Elems: make([]Val, d.Len)}
		for i := range v.Elems {
			v.Elems[i] = g.val(d.Elem, budget-1)
		}
		return v
	case d.K == "map":
		if rapid.IntRange(0, 5).Draw(t, "nilmap") == 0 {
			return Val{Nil: true}
		}
		n := g.length()
		if budget <= 0 {
			n = 0
		}
		v := Val{}
		seen := map[string]bool{}
		for i := 0; i < n; i++ {
			k := g.val(d.Key, budget-1)
			if d.Key.K == "any" {
				// interface-typed keys must hold hashable values
				dyn := &Desc{K: pick(t, "anykeykind", append([]string{"int", "string", "bool", "float64", "int8", "uint"}, g.vc.AnyKeyPool...))}
				k = Val{Dyn: dyn, Elems: []Val{g.val(dyn, 1)}}
			}
			ks := fmt.Sprintf("%v|%v|%v|%s", k.B, k.I, k.U, k.S)
			if k.Dyn != nil && len(k.Elems) > 0 {
				e := k.Elems[0]
				ks = fmt.Sprintf("%s|%v|%v|%v|%s", k.Dyn.K, e.B, e.I, e.U, e.S)
			}
			if seen[ks] {
				continue
			}
			seen[ks] = true
			v.Keys = append(v.Keys, k)
			v.Elems = append(v.Elems, g.val(d.Elem, budget-1))
		}
		return v
	case d.K == "struct":
		v := Val{Elems: make([]Val, len(d.Fields))}
		for i := range d.Fields {
			if len(d.Fields) > 40 && rapid.IntRange(0, 3).Draw(t, "bigzero") != 0 {
				continue // keep most fields of big structs zero
			}
			v.Elems[i] = g.val(d.Fields[i].T, budget-1)
		}
		if g.vc.FallbackCollide && rapid.IntRange(0, 1).Draw(t, "collide?") == 0 {
			g.collide(d, &v, budget)
		}
		return v
	}
	return Val{}
}

// memberNames lists the (approximate) JSON names of the members a struct declares, following Go embedding.
func memberNames(d *Desc, depth int, out []string) []string {
	if depth > 4 {
		return out
	}
	for i := range d.Fields {
		f := &d.Fields[i]
		u := f.T
		for u.K == "ptr" {
			u = u.Elem
		}
		if f.HasOpt("embed") && u.K != "struct" {
			continue
		}
		if (f.Embedded && (f.Tag == "" || strings.HasPrefix(f.Tag, ","))) || f.HasOpt("embed") {
			if u.K == "struct" {
				out = memberNames(u, depth+1, out)
			}
			continue
		}
		if n, ok := f.JSONName(); ok {
			out = append(out, strings.Trim(n, "'"))
		}
	}
	return out
}

// collide adds names of declared members to the keys of the struct's embedded map fallback: what Marshal
// does when the fallback repeats a member that was (or, being omitted, was not) written.
func (g *valGen) collide(d *Desc, v *Val, budget int) {
	t := g.t
	for i := range d.Fields {
		f := &d.Fields[i]
		if !f.HasOpt("embed") || f.T.K != "map" || f.T.Key.K != "string" {
			continue
		}
		names := memberNames(d, 0, nil)
		if len(names) == 0 {
			return
		}
		fb := &v.Elems[i]
		fb.Nil = false
		for n := rapid.IntRange(1, 2).Draw(t, "ncollide"); n > 0; n-- {
			name := pick(t, "collidename", names)
			dup := false
			for _, k := range fb.Keys {
				dup = dup || string(k.S) == name
			}
			if !dup {
				fb.Keys = append(fb.Keys, Val{S: []byte(name)})
				fb.Elems = append(fb.Elems, g.val(f.T.Elem, min(budget-1, 1)))
			}
		}
		return
	}
}

package tv

import (
	"encoding/base64"
	"fmt"
	"strconv"
	"strings"
	"time"

	"pgregory.net/rapid"
)

// JSONCfg tunes GenJSON.
type JSONCfg struct {
	Nulls     bool // emit null for nullable positions now and then (and for any position rarely)
	Extra     bool // add unknown members to struct objects
	PresentPc int  // probability (percent) that a struct field is mentioned (default 60)
	MaxLen    int  // max array / map length (default 3)
	AnyLen    bool // Go arrays and [N]byte may get fewer or more elements than N (UnmarshalArrayFromAnyLength)
	// Rec, if set, is called with the RFC 6901 pointer and description of every
	// value position generated (used to pick injection points).
	Rec func(ptr string, d *Desc, start, end int)
}

// JSONName returns the JSON member name of a field under default (v2)
// options: the tag name if present, else the Go field name; ok is false for
// ignored fields (tag "-").
func (f *Field) JSONName() (name string, ok bool) {
	if f.Tag == "-" {
		return "", false
	}
	if f.Tag != "" && !strings.HasPrefix(f.Tag, ",") {
		n, _, _ := strings.Cut(f.Tag, ",")
		return n, true
	}
	return f.Name, true
}

// HasOpt reports whether the field tag carries the option (e.g. "omitzero",
// "string", "case:ignore", or a "format:" prefix when opt ends in ':').
func (f *Field) HasOpt(opt string) bool {
	parts := strings.Split(f.Tag, ",")
	for _, p := range parts[1:] {
		if p == opt || (strings.HasSuffix(opt, ":") && strings.HasPrefix(p, opt)) {
			return true
		}
	}
	return false
}

func quoteJSON(s string) string {
	var sb strings.Builder
	sb.WriteByte('"')
	for _, r := range s {
		switch {
		case r == '"' || r == '\\':
			sb.WriteByte('\\')
			sb.WriteRune(r)
		case r < 0x20:
			fmt.Fprintf(&sb, "\\u%04x", r)
		default:
			sb.WriteRune(r)
		}
	}
	sb.WriteByte('"')
	return sb.String()
}

// GenJSON draws a JSON text that fits d under default v2 options (no
// `string`/`format` tag handling: use descriptions without those).
func GenJSON(t *rapid.T, d *Desc, jc JSONCfg) []byte {
	if jc.PresentPc == 0 {
		jc.PresentPc = 60
	}
	if jc.MaxLen == 0 {
		jc.MaxLen = 3
	}
	g := &jsonGen{t: t, jc: jc}
	g.val(d, "", 6)
	return []byte(g.sb.String())
}

type jsonGen struct {
	t  *rapid.T
	jc JSONCfg
	sb strings.Builder
}

func (g *jsonGen) maybeNull(pc int) bool {
	return g.jc.Nulls && rapid.IntRange(0, 99).Draw(g.t, "null?") < pc
}

var jsonKeyPool = []string{"a", "b", "c", "k"}

func (g *jsonGen) keyFor(d *Desc, i int) string {
	t := g.t
	switch {
	case d.K == "string":
		return rapid.SampledFrom(jsonKeyPool).Draw(t, "skey")
	case IsInt(d.K):
		return strconv.Itoa(rapid.IntRange(-2, 3).Draw(t, "ikey"))
	case IsUint(d.K):
		return strconv.Itoa(rapid.IntRange(0, 3).Draw(t, "ukey"))
	case IsFloat(d.K):
		return rapid.SampledFrom([]string{"0", "1", "1.5", "-2"}).Draw(t, "fkey")
	case d.K == "bool":
		return rapid.SampledFrom([]string{"true", "false"}).Draw(t, "bkey")
	}
	return fmt.Sprintf("k%d", i)
}

func (g *jsonGen) members(d *Desc, ptr string, budget int, first *bool, seen map[string]bool) {
	t := g.t
	for i := range d.Fields {
		f := &d.Fields[i]
		if f.Embedded || f.HasOpt("embed") {
			inner := f.T
			for inner.K == "ptr" {
				inner = inner.Elem
			}
			if inner.K == "struct" {
				g.members(inner, ptr, budget, first, seen)
				continue
			}
			if f.HasOpt("embed") {
				continue // fallback field: receives unknown members
			}
		}
		name, ok := f.JSONName()
		if !ok || seen[name] {
			continue
		}
		if rapid.IntRange(0, 99).Draw(t, "present?") >= g.jc.PresentPc {
			continue
		}
		seen[name] = true
		if !*first {
			g.sb.WriteByte(',')
		}
		*first = false
		g.sb.WriteString(quoteJSON(name))
		g.sb.WriteByte(':')
		g.val(f.T, ptr+"/"+escapePtr(name), budget-1)
	}
}

func escapePtr(s string) string {
	return strings.ReplaceAll(strings.ReplaceAll(s, "~", "~0"), "/", "~1")
}

func (g *jsonGen) val(d *Desc, ptr string, budget int) {
	start := g.sb.Len()
	g.val0(d, ptr, budget)
	if g.jc.Rec != nil {
		g.jc.Rec(ptr, d, start, g.sb.Len())
	}
}

func (g *jsonGen) val0(d *Desc, ptr string, budget int) {
	t := g.t
	sb := &g.sb
	if g.maybeNull(4) {
		sb.WriteString("null")
		return
	}
	if p, ok := Pool(d.K); ok {
		g.val0(p.Under, ptr, budget)
		return
	}
	switch {
	case d.K == "bool":
		sb.WriteString(rapid.SampledFrom([]string{"true", "false"}).Draw(t, "b"))
	case IsInt(d.K):
		var v int64
		switch Bits(d.K) {
		case 8:
			v = int64(rapid.Int8().Draw(t, "i8"))
		case 16:
			v = int64(rapid.Int16().Draw(t, "i16"))
		case 32:
			v = int64(rapid.Int32().Draw(t, "i32"))
		default:
			v = rapid.SampledFrom(int64Edges).Draw(t, "i64")
		}
		if rapid.Bool().Draw(t, "small") {
			v = int64(rapid.IntRange(0, 9).Draw(t, "smalli"))
		}
		sb.WriteString(strconv.FormatInt(v, 10))
	case IsUint(d.K):
		var v uint64
		switch Bits(d.K) {
		case 8:
			v = uint64(rapid.Uint8().Draw(t, "u8"))
		case 16:
			v = uint64(rapid.Uint16().Draw(t, "u16"))
		case 32:
			v = uint64(rapid.Uint32().Draw(t, "u32"))
		default:
			v = rapid.SampledFrom(uint64Edges).Draw(t, "u64")
		}
		if rapid.Bool().Draw(t, "small") {
			v = uint64(rapid.IntRange(0, 9).Draw(t, "smallu"))
		}
		sb.WriteString(strconv.FormatUint(v, 10))
	case IsFloat(d.K):
		sb.WriteString(rapid.SampledFrom([]string{"0", "1", "-1", "1.5", "2.25", "1e2", "-0", "0.1", "123456789", "3.4e38", "1e-3"}).Draw(t, "f"))
	case d.K == "string":
		sb.WriteString(rapid.SampledFrom([]string{`""`, `"a"`, `"b"`, `"xyz"`, `"é"`, `"a\nb"`, `"0"`, `"null"`}).Draw(t, "s"))
	case d.K == "bytes":
		b := rapid.SliceOfN(rapid.Byte(), 0, 5).Draw(t, "bytes")
		sb.WriteString(`"` + base64.StdEncoding.EncodeToString(b) + `"`)
	case d.K == "bytearr":
		n := d.Len
		if g.jc.AnyLen && rapid.Bool().Draw(t, "balen?") {
			n = rapid.IntRange(0, d.Len+2).Draw(t, "balen")
		}
		b := rapid.SliceOfN(rapid.Byte(), n, n).Draw(t, "bytearr")
		sb.WriteString(`"` + base64.StdEncoding.EncodeToString(b) + `"`)
	case d.K == "time":
		sec := rapid.Int64Range(0, 4102444800).Draw(t, "tsec")
		sb.WriteString(`"` + time.Unix(sec, 0).UTC().Format(time.RFC3339) + `"`)
	case d.K == "dur":
		sb.WriteString(strconv.Itoa(rapid.IntRange(-5, 5).Draw(t, "dur")))
	case d.K == "raw", d.K == "any":
		g.anyJSON(budget)
	case d.K == "ptr":
		if g.maybeNull(15) {
			sb.WriteString("null")
			return
		}
		g.val0(d.Elem, ptr, budget)
	case d.K == "slice":
		if g.maybeNull(10) {
			sb.WriteString("null")
			return
		}
		n := rapid.IntRange(0, g.jc.MaxLen).Draw(t, "slen")
		if budget <= 0 {
			n = 0
		}
		sb.WriteByte('[')
		for i := 0; i < n; i++ {
			if i > 0 {
				sb.WriteByte(',')
			}
			g.val(d.Elem, fmt.Sprintf("%s/%d", ptr, i), budget-1)
		}
		sb.WriteByte(']')
	case d.K == "array":
		sb.WriteByte('[')
		alen := d.Len
		if g.jc.AnyLen && rapid.Bool().Draw(t, "alen?") {
			alen = rapid.IntRange(0, d.Len+2).Draw(t, "alen")
		}
		for i := 0; i < alen; i++ {
			if i > 0 {
				sb.WriteByte(',')
			}
			g.val(d.Elem, fmt.Sprintf("%s/%d", ptr, i), budget-1)
		}
		sb.WriteByte(']')
	case d.K == "map":
		if g.maybeNull(10) {
			sb.WriteString("null")
			return
		}
		n := rapid.IntRange(0, g.jc.MaxLen).Draw(t, "mlen")
		if budget <= 0 {
			n = 0
		}
		sb.WriteByte('{')
		seen := map[string]bool{}
		first := true
		for i := 0; i < n; i++ {
			k := g.keyFor(d.Key, i)
			if seen[k] {
				continue
			}
			seen[k] = true
			if !first {
				sb.WriteByte(',')
			}
			first = false
			sb.WriteString(quoteJSON(k))
			sb.WriteByte(':')
			g.val(d.Elem, ptr+"/"+escapePtr(k), budget-1)
		}
		sb.WriteByte('}')
	case d.K == "struct":
		sb.WriteByte('{')
		first := true
		seen := map[string]bool{}
		if g.jc.Extra && rapid.IntRange(0, 3).Draw(t, "extra1") == 0 {
			sb.WriteString(`"zz_unknown":`)
			g.unknownValue(d, ptr+"/zz_unknown", budget)
			first = false
			seen["zz_unknown"] = true
		}
		g.members(d, ptr, budget, &first, seen)
		if g.jc.Extra && rapid.IntRange(0, 3).Draw(t, "extra2") == 0 && !seen["zz_unknown2"] {
			if !first {
				sb.WriteByte(',')
			}
			sb.WriteString(`"zz_unknown2":`)
			g.unknownValue(d, ptr+"/zz_unknown2", budget)
		}
		sb.WriteByte('}')
	default:
		sb.WriteString("null")
	}
}

// unknownValue writes the value of a member that no field of d answers to: if
// d stores such members in a typed fallback map the value is fitted to the
// element type (so that the text is acceptable), otherwise anything goes.
func (g *jsonGen) unknownValue(d *Desc, ptr string, budget int) {
	if fb := Fallback(d); fb != nil && fb.K == "map" && fb.Elem.K != "any" {
		g.val(fb.Elem, ptr, min(budget-1, 2))
		return
	}
	g.anyJSON(1)
}

func (g *jsonGen) anyJSON(budget int) {
	t := g.t
	sb := &g.sb
	k := rapid.IntRange(0, 7).Draw(t, "anykind")
	if budget <= 0 && k >= 6 {
		k = 1
	}
	switch k {
	case 0:
		sb.WriteString("null")
	case 1:
		sb.WriteString(rapid.SampledFrom([]string{"true", "false"}).Draw(t, "ab"))
	case 2, 3:
		sb.WriteString(rapid.SampledFrom([]string{"0", "1", "2.5", "-7", "1e3"}).Draw(t, "an"))
	case 4, 5:
		sb.WriteString(rapid.SampledFrom([]string{`""`, `"a"`, `"s"`}).Draw(t, "as"))
	case 6:
		n := rapid.IntRange(0, 2).Draw(t, "alen")
		sb.WriteByte('[')
		for i := 0; i < n; i++ {
			if i > 0 {
				sb.WriteByte(',')
			}
			g.anyJSON(budget - 1)
		}
		sb.WriteByte(']')
	default:
		n := rapid.IntRange(0, 3).Draw(t, "aolen")
		sb.WriteByte('{')
		seen := map[string]bool{}
		first := true
		for i := 0; i < n; i++ {
			k := rapid.SampledFrom(jsonKeyPool).Draw(t, "aokey")
			if seen[k] {
				continue
			}
			seen[k] = true
			if !first {
				sb.WriteByte(',')
			}
			first = false
			sb.WriteString(quoteJSON(k))
			sb.WriteByte(':')
			g.anyJSON(budget - 1)
		}
		sb.WriteByte('}')
	}
}

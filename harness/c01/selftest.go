package c01

import (
	stdjson "encoding/json"
	"fmt"
	"unicode/utf8"

	"verif/harness/ref"
)

// refSelfTest compares ref.Parse with std encoding/json.Valid on all strings
// of length <=4 over the enumeration alphabet (minus 0xFF) and on lexeme
// sequences of length <=3. std agrees with RFC 8259 on valid-UTF-8 input
// except that it accepts lone surrogate escapes (AllowInvalidUTF8-like).
func refSelfTest() []string {
	var out []string
	check := func(in []byte) {
		if !utf8.Valid(in) {
			return
		}
		want := stdjson.Valid(in)
		got := ref.Valid(in, ref.Opt{AllowInvalidUTF8: true, AllowDup: true})
		if want != got && len(out) < 5 {
			out = append(out, fmt.Sprintf("oracle self-test: ref.Valid(%q)=%v, std json.Valid=%v", in, got, want))
		}
	}
	alpha := alphabet[:15]
	for l := 0; l <= 4; l++ {
		n := 1
		for i := 0; i < l; i++ {
			n *= 15
		}
		buf := make([]byte, l)
		for i := 0; i < n; i++ {
			x := i
			for j := 0; j < l; j++ {
				buf[j] = alpha[x%15]
				x /= 15
			}
			check(buf)
		}
	}
	k := len(lexemes)
	for l := 1; l <= 3; l++ {
		n := 1
		for i := 0; i < l; i++ {
			n *= k
		}
		for i := 0; i < n; i++ {
			x := i
			var b []byte
			for j := 0; j < l; j++ {
				b = append(b, lexemes[x%k]...)
				x /= k
			}
			check(b)
		}
	}
	return out
}

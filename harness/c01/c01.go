// Package c01 decides property C01: the decoder/validator accepts exactly the
// JSON grammar (RFC 8259 / RFC 7493) under the four Allow* combinations.
package c01

import (
	"bytes"
	"errors"
	"fmt"
	"io"
	"strings"

	"github.com/go-json-experiment/json"
	"github.com/go-json-experiment/json/jsontext"
	"pgregory.net/rapid"

	"verif/harness/cov"
	"verif/harness/ref"
	"verif/harness/rt"
)

var rec = cov.New()

// Case is one (input, options) pair.
type Case struct {
	Input []byte `json:"input"`
	UTF8  bool   `json:"allow_invalid_utf8"`
	Dup   bool   `json:"allow_duplicate_names"`
}

func (c Case) opts() []jsontext.Options {
	return []jsontext.Options{jsontext.AllowInvalidUTF8(c.UTF8), jsontext.AllowDuplicateNames(c.Dup)}
}

func kindChar(k jsontext.Kind) byte { return byte(k) }

// Run decides one case.
func Run(c Case) error {
	in := c.Input
	opt := ref.Opt{AllowInvalidUTF8: c.UTF8, AllowDup: c.Dup}
	rec.Eval()

	node, rerr := ref.Parse(in, opt)
	nodes, serr := ref.ParseStream(in, opt)

	// non-trivial rule
	{
		_, perr := ref.ParseStream(in, ref.Opt{AllowInvalidUTF8: true, AllowDup: true})
		nt := perr == nil || perr.Pos >= len(in)-1
		if nt {
			fp := cov.FP(in, []byte{b2(c.UTF8), b2(c.Dup)})
			rec.NonTrivial(fp)
			rec.Sample(fp, func() any { return map[string]any{"input": string(in), "allow_invalid_utf8": c.UTF8, "allow_duplicate_names": c.Dup, "ref_valid_single": rerr == nil, "ref_valid_stream": serr == nil} })
		}
		switch {
		case rerr == nil:
			rec.Class("valid-under-options")
		case perr == nil && serr != nil:
			rec.Class("valid-only-with-permissive-options")
		case serr == nil:
			rec.Class("valid-stream-not-single")
		case serr.Truncated:
			rec.Class("truncated")
		case serr.Pos >= len(in)-1:
			rec.Class("reject-last-byte")
		default:
			rec.Class("reject-earlier")
		}
	}

	// 1. Value.IsValid
	var got bool
	if p := rt.Guard(func() { got = jsontext.Value(in).IsValid(c.opts()...) }); p != nil {
		return fmt.Errorf("IsValid panicked: %v", p)
	}
	if got != (rerr == nil) {
		return fmt.Errorf("Value.IsValid=%v but reference says valid=%v (%v) for %q opts utf8=%v dup=%v", got, rerr == nil, rerr, in, c.UTF8, c.Dup)
	}

	// 2. Decoder read by values
	{
		d := jsontext.NewDecoder(bytes.NewReader(in), c.opts()...)
		var n int
		var ferr error
		if p := rt.Guard(func() {
			for {
				before := d.InputOffset()
				v, err := d.ReadValue()
				if err != nil {
					ferr = err
					return
				}
				if n < len(nodes) {
					nd := nodes[n]
					end := d.InputOffset()
					if int(end) != nd.End || !bytes.Equal(v, in[nd.Start:nd.End]) {
						ferr = fmt.Errorf("harness: value #%d is %q ending at %d (offset before %d); reference span [%d,%d)=%q", n, v, end, before, nd.Start, nd.End, in[nd.Start:nd.End])
						n = -1
						return
					}
				}
				n++
				if n > len(in)+1 {
					ferr = errors.New("harness: decoder returns more values than bytes")
					n = -1
					return
				}
			}
		}); p != nil {
			return fmt.Errorf("ReadValue loop panicked: %v", p)
		}
		if n == -1 {
			return fmt.Errorf("ReadValue path: %v (input %q)", ferr, in)
		}
		if n != len(nodes) {
			return fmt.Errorf("ReadValue path returned %d values before %v; reference finds %d complete values (err %v) in %q", n, ferr, len(nodes), serr, in)
		}
		if (ferr == io.EOF) != (serr == nil) {
			return fmt.Errorf("ReadValue path ended with %v; reference stream verdict: %v; input %q utf8=%v dup=%v", ferr, serr, in, c.UTF8, c.Dup)
		}
	}

	// 3. Decoder read by tokens
	{
		var toks []ref.Tok
		if serr == nil {
			toks, _ = ref.TokensLite(in, opt)
		}
		d := jsontext.NewDecoder(bytes.NewReader(in), c.opts()...)
		var n int
		var ferr error
		var mismatch string
		if p := rt.Guard(func() {
			for {
				tok, err := d.ReadToken()
				if err != nil {
					ferr = err
					return
				}
				if serr == nil {
					if n >= len(toks) {
						mismatch = fmt.Sprintf("extra token #%d kind %q", n, tok.Kind())
						return
					}
					want := toks[n]
					if kindChar(tok.Kind()) != byte(want.Kind) {
						mismatch = fmt.Sprintf("token #%d kind %q, reference %q", n, tok.Kind(), want.Kind)
						return
					}
					if want.Kind == '"' && tok.String() != want.Str {
						mismatch = fmt.Sprintf("token #%d string %q, reference %q", n, tok.String(), want.Str)
						return
					}
					if int(d.InputOffset()) != want.End {
						mismatch = fmt.Sprintf("token #%d ends at %d, reference %d", n, d.InputOffset(), want.End)
						return
					}
				}
				n++
				if n > 2*len(in)+2 {
					mismatch = "more tokens than bytes"
					return
				}
			}
		}); p != nil {
			return fmt.Errorf("ReadToken loop panicked: %v", p)
		}
		if mismatch != "" {
			return fmt.Errorf("ReadToken path: %s (input %q)", mismatch, in)
		}
		if (ferr == io.EOF) != (serr == nil) {
			return fmt.Errorf("ReadToken path ended with %v after %d tokens; reference stream verdict: %v; input %q utf8=%v dup=%v", ferr, n, serr, in, c.UTF8, c.Dup)
		}
		if serr == nil && n != len(toks) {
			return fmt.Errorf("ReadToken path returned %d tokens, reference %d; input %q", n, len(toks), in)
		}
		if ferr == io.EOF && d.StackDepth() != 0 {
			return fmt.Errorf("io.EOF at depth %d; input %q", d.StackDepth(), in)
		}
	}

	// 3b. The same two routes over readers that deliver the input in small
	// pieces: acceptance must not depend on where a refill falls (a lexeme
	// resumed after a refill is still the same lexeme).
	if len(in) >= 2 {
		h := cov.FP(in)
		cs := 1
		if h&1 == 1 {
			cs = 2 + int((h>>1)%7)
		}
		{
			for _, byTok := range []bool{false, true} {
				d := jsontext.NewDecoder(&pieceReader{b: in, n: cs}, c.opts()...)
				var n int
				var ferr error
				if p := rt.Guard(func() {
					for n <= 2*len(in)+2 {
						var err error
						if byTok {
							_, err = d.ReadToken()
						} else {
							_, err = d.ReadValue()
						}
						if err != nil {
							ferr = err
							return
						}
						n++
					}
				}); p != nil {
					return fmt.Errorf("decoder over a %d-byte-per-read reader panicked: %v (input %q)", cs, p, in)
				}
				what := map[bool]string{false: "ReadValue", true: "ReadToken"}[byTok]
				if (ferr == io.EOF) != (serr == nil) {
					return fmt.Errorf("%s path over a reader delivering %d bytes per read ended with %v after %d items; reference stream verdict: %v; input %q utf8=%v dup=%v", what, cs, ferr, n, serr, in, c.UTF8, c.Dup)
				}
				if !byTok && n != len(nodes) {
					return fmt.Errorf("ReadValue path over a reader delivering %d bytes per read returned %d values before %v; reference finds %d complete values in %q", cs, n, ferr, len(nodes), in)
				}
			}
		}
	}

	// 4. Unmarshal into any
	{
		var v any
		var err error
		if p := rt.Guard(func() { err = json.Unmarshal(in, &v, c.opts()...) }); p != nil {
			return fmt.Errorf("Unmarshal panicked: %v", p)
		}
		if rerr != nil {
			if err == nil {
				return fmt.Errorf("Unmarshal into any accepted %q (utf8=%v dup=%v) but the reference rejects: %v", in, c.UTF8, c.Dup, rerr)
			}
		} else {
			overflow := hasOverflow(in, node)
			dupFree := true
			if c.Dup {
				_, e2 := ref.Parse(in, ref.Opt{AllowInvalidUTF8: c.UTF8, AllowDup: false})
				dupFree = e2 == nil
			}
			switch {
			case overflow:
				if err == nil {
					return fmt.Errorf("Unmarshal into any accepted %q although a number overflows float64", in)
				}
			case dupFree:
				if err != nil {
					return fmt.Errorf("Unmarshal into any rejected reference-valid %q (utf8=%v dup=%v): %v", in, c.UTF8, c.Dup, err)
				}
			}
		}
	}
	return nil
}

func b2(b bool) byte {
	if b {
		return 1
	}
	return 0
}

func hasOverflow(in []byte, n *ref.Node) bool {
	switch n.Kind {
	case '0':
		_, over := ref.RoundFloat(string(in[n.Start:n.End]), 64)
		return over
	case '[':
		for _, e := range n.Elems {
			if hasOverflow(in, e) {
				return true
			}
		}
	case '{':
		for _, m := range n.Members {
			if hasOverflow(in, m.Value) {
				return true
			}
		}
	}
	return false
}

const alphabet = "{}[]:,\"\\u01-.e \xff"

func enumBytes(e *rt.Env, yield func(Case) bool) {
	maxLen := 5
	if e.Thorough() {
		maxLen = 6
	}
	var idx int64
	buf := make([]byte, 0, 8)
	var total int64
	complete := true
	for l := 0; l <= maxLen && complete; l++ {
		n := int64(1)
		for i := 0; i < l; i++ {
			n *= 16
		}
		for i := int64(0); i < n; i++ {
			idx++
			if !e.Mine(idx) {
				continue
			}
			buf = buf[:0]
			x := i
			for j := 0; j < l; j++ {
				buf = append(buf, alphabet[x&15])
				x >>= 4
			}
			for o := 0; o < 4; o++ {
				total++
				if !yield(Case{Input: append([]byte(nil), buf...), UTF8: o&1 != 0, Dup: o&2 != 0}) {
					complete = false
					break
				}
			}
			if !complete {
				break
			}
		}
	}
	e.Rec.AddPart(cov.Part{Name: fmt.Sprintf("all byte strings of length <=%d over the 16-byte alphabet x 4 option sets", maxLen), Size: total, Complete: complete})
}

var lexemes = []string{"{", "}", "[", "]", ":", ",", `"a"`, `"b"`, "\"\\u0061\"", "\"\\ud800\"", "\"\\ud83d\\ude00\"", "\"\xff\"",
	"1", "-0", "01", "1.", "1e", "1e+1", "true", "nul", " ", "\n", `"`, `\`, "null", `""`}

func enumLexemes(e *rt.Env, yield func(Case) bool) {
	maxLen := 4
	if e.Thorough() {
		maxLen = 5
	}
	k := int64(len(lexemes))
	var idx, total int64
	complete := true
	var sb strings.Builder
	for l := 1; l <= maxLen && complete; l++ {
		n := int64(1)
		for i := 0; i < l; i++ {
			n *= k
		}
		for i := int64(0); i < n; i++ {
			idx++
			if !e.Mine(idx) {
				continue
			}
			sb.Reset()
			x := i
			for j := 0; j < l; j++ {
				sb.WriteString(lexemes[x%k])
				x /= k
			}
			in := []byte(sb.String())
			for o := 0; o < 4; o++ {
				total++
				if !yield(Case{Input: in, UTF8: o&1 != 0, Dup: o&2 != 0}) {
					complete = false
					break
				}
			}
			if !complete {
				break
			}
		}
	}
	e.Rec.AddPart(cov.Part{Name: fmt.Sprintf("all lexeme sequences of length <=%d over %d lexemes x 4 option sets", maxLen, len(lexemes)), Size: total, Complete: complete})
}

// genDupNames builds one to three sibling objects (array elements or stream
// values) whose duplicate (or near-duplicate) name sits before / at / after
// the 64-name and 1 KiB-of-names thresholds of the name tracking, spelled with
// different escapes; later siblings reuse names of earlier ones (which is
// legal), so state left behind by an earlier object shows up.
func genDupNames(t *rapid.T) Case {
	nobj := rapid.SampledFrom([]int{1, 1, 2, 3}).Draw(t, "nobj")
	var sb strings.Builder
	depth := rapid.IntRange(0, 2).Draw(t, "depth")
	for i := 0; i < depth; i++ {
		sb.WriteString(rapid.SampledFrom([]string{`[`, `{"o":`, `[1,`}).Draw(t, "open"))
	}
	openers := sb.String()
	container := rapid.SampledFrom([]string{"array", "stream"}).Draw(t, "siblings")
	if depth > 0 || nobj == 1 {
		container = "array"
	}
	if nobj > 1 || container == "array" && rapid.Bool().Draw(t, "wrap") {
		sb.WriteByte('[')
		openers += "["
	}
	for o := 0; o < nobj; o++ {
		if o > 0 {
			if container == "array" {
				sb.WriteByte(',')
			} else {
				sb.WriteString(rapid.SampledFrom([]string{"", " ", "\n"}).Draw(t, "sep"))
			}
		}
		genOneObject(t, &sb)
	}
	for i := len(openers) - 1; i >= 0; i-- {
		switch openers[i] {
		case '[':
			sb.WriteByte(']')
		case '{':
			sb.WriteByte('}')
		}
	}
	return Case{Input: []byte(sb.String()), UTF8: rapid.Bool().Draw(t, "allowutf8"), Dup: rapid.Bool().Draw(t, "allowdup")}
}

func genOneObject(t *rapid.T, sb *strings.Builder) {
	n := rapid.SampledFrom([]int{1, 2, 3, 8, 21, 22, 23, 31, 32, 33, 62, 63, 64, 65, 66, 67, 68, 100, 129, 200}).Draw(t, "n")
	long := rapid.Bool().Draw(t, "longnames") // push total name bytes over 1 KiB early
	names := make([]string, n)
	for i := range names {
		if long {
			names[i] = fmt.Sprintf("name-%03d-%s", i, strings.Repeat("x", 40))
		} else {
			names[i] = fmt.Sprintf("k%d", i)
		}
	}
	if rapid.IntRange(0, 5).Draw(t, "huge0") == 0 {
		names[0] = "h" + strings.Repeat("y", rapid.SampledFrom([]int{1018, 1019, 1020, 1021, 1022, 1023, 1024, 1025, 1100}).Draw(t, "hugelen"))
	}
	spell := func(s string) string {
		switch rapid.IntRange(0, 3).Draw(t, "spell") {
		case 0:
			return s
		case 1:
			return fmt.Sprintf("\\u%04x", s[0]) + s[1:]
		case 2:
			return fmt.Sprintf("\\u%04X", s[0]) + s[1:]
		default:
			return s[:len(s)-1] + fmt.Sprintf("\\u%04x", s[len(s)-1])
		}
	}
	// boundary-biased positions: the duplicated name (src) and where the duplicate goes (dst > src)
	idx := func(label string) int {
		c := []int{0, 1, 20, 21, 22, 23, 62, 63, 64, 65, 66, 67, n - 2, n - 1}
		i := rapid.SampledFrom(c).Draw(t, label)
		if rapid.IntRange(0, 3).Draw(t, label+"rnd") == 0 {
			i = rapid.IntRange(0, n-1).Draw(t, label+"any")
		}
		if i < 0 {
			i = 0
		}
		if i >= n {
			i = n - 1
		}
		return i
	}
	inject := rapid.IntRange(0, 3).Draw(t, "inject")
	src, dst := idx("src"), idx("dst")
	if dst < src {
		src, dst = dst, src
	}
	sb.WriteByte('{')
	for i, nm := range names {
		if i > 0 {
			sb.WriteByte(',')
		}
		switch {
		case inject == 0 && i == dst && dst != src:
			nm = spell(names[src]) // real duplicate
		case inject == 1 && i == dst:
			nm = spell(nm) // same name re-spelled: no duplicate
		case inject == 2 && i == dst && dst != src:
			nm = names[src] + "\\u0000" // near duplicate: differs by a trailing NUL
		}
		sb.WriteString(`"` + nm + `":` + rapid.SampledFrom([]string{"0", `"v"`, "null", "[]", "{}"}).Draw(t, "val"))
	}
	sb.WriteByte('}')
}

// genDepth builds towers around the 10000 limit.
func genDepth(t *rapid.T) Case {
	d := rapid.SampledFrom([]int{9998, 9999, 10000, 10001, 10002}).Draw(t, "depth")
	shape := rapid.IntRange(0, 3).Draw(t, "shape")
	var open, close strings.Builder
	for i := 0; i < d; i++ {
		obj := false
		switch shape {
		case 1:
			obj = true
		case 2:
			obj = i%2 == 1
		case 3:
			obj = rapid.IntRange(0, 9).Draw(t, "obj") == 0
		}
		if obj && i < d-1 {
			open.WriteString(`{"a":`)
			close.WriteString("}")
		} else if obj {
			open.WriteString(`{`)
			close.WriteString("}")
		} else {
			open.WriteString("[")
			close.WriteString("]")
		}
	}
	cl := []byte(close.String())
	for i, j := 0, len(cl)-1; i < j; i, j = i+1, j-1 {
		cl[i], cl[j] = cl[j], cl[i]
	}
	in := append([]byte(open.String()), cl...)
	if rapid.IntRange(0, 4).Draw(t, "trunc") == 0 {
		in = in[:rapid.IntRange(0, len(in)).Draw(t, "cut")]
	}
	return Case{Input: in, UTF8: rapid.Bool().Draw(t, "allowutf8"), Dup: rapid.Bool().Draw(t, "allowdup")}
}

// selfTest cross-checks the reference recognizer against std encoding/json
// where the two specifications coincide (valid UTF-8 input, duplicates allowed).
func selfTest(e *rt.Env) {
	for _, msg := range refSelfTest() {
		e.OracleFail(msg)
	}
}

// pieceReader delivers its content n bytes per Read.
type pieceReader struct {
	b []byte
	n int
}

func (r *pieceReader) Read(p []byte) (int, error) {
	if len(r.b) == 0 {
		return 0, io.EOF
	}
	k := min(r.n, len(p), len(r.b))
	copy(p, r.b[:k])
	r.b = r.b[k:]
	return k, nil
}

package c01

import (
	"testing"

	"pgregory.net/rapid"

	"verif/harness/gen"
	"verif/harness/rt"
)

func TestCheck(t *testing.T) {
	e := rt.Setup(t, "C01")
	defer e.Finish()
	rec = e.Rec

	selfTest(e)

	// (a) bounded-exhaustive layers
	rt.Enum(e, "enum-bytes", func(yield func(Case) bool) { enumBytes(e, yield) }, Run)
	rt.Enum(e, "enum-lexemes", func(yield func(Case) bool) { enumLexemes(e, yield) }, Run)

	// (b) grammar-directed + mutated
	rt.Rapid(e, "docs", 300_000, 4_000_000, func(t *rapid.T) Case {
		cfg := gen.DocCfg{WS: true, Wide: true, LongStr: true,
			Dups:    rapid.Bool().Draw(t, "dups"),
			BadUTF8: rapid.Bool().Draw(t, "badutf8")}
		return Case{Input: gen.Text(t, cfg), UTF8: rapid.Bool().Draw(t, "allowutf8"), Dup: rapid.Bool().Draw(t, "allowdup")}
	}, Run)
	rt.Rapid(e, "streams", 100_000, 1_000_000, func(t *rapid.T) Case {
		cfg := gen.DocCfg{WS: true, Dups: rapid.Bool().Draw(t, "dups"), BadUTF8: rapid.Bool().Draw(t, "badutf8")}
		in := gen.Stream(t, cfg)
		if rapid.Bool().Draw(t, "mutate") {
			in = gen.Mutate(t, in)
		}
		return Case{Input: in, UTF8: rapid.Bool().Draw(t, "allowutf8"), Dup: rapid.Bool().Draw(t, "allowdup")}
	}, Run)
	rt.Rapid(e, "dupnames", 60_000, 600_000, genDupNames, Run)
	rt.Rapid(e, "depth", 300, 3000, genDepth, Run)
}

package c01

import (
	"testing"

	"verif/harness/rt"
)

// FuzzGrammar is the coverage-guided layer (thorough tier): arbitrary bytes
// under the option set selected by optbits, decided by the same Run.
func FuzzGrammar(f *testing.F) {
	for _, s := range []string{`{"a":[1,2.5e3,"xé😀",null,true,false]}`, `[]`, `"\ud800"`, "\"\xff\"", `{"a":1,"a":2}`, `{"a":1,"a":2}`, ` 1 2 `, `[[[[[[[[]]]]]]]]`, `-0.0e-0`, `{"":{"":{"":[]}}}`} {
		f.Add([]byte(s), byte(0))
		f.Add([]byte(s), byte(3))
	}
	f.Fuzz(func(t *testing.T, data []byte, optbits byte) {
		if len(data) > 4096 {
			return
		}
		c := Case{Input: data, UTF8: optbits&1 != 0, Dup: optbits&2 != 0}
		rt.FuzzJudge(t, "C01", "docs", c, Run(c))
	})
}

package c10

import (
	"bytes"
	"fmt"
	"math"
	"strconv"
	"unsafe"

	"github.com/go-json-experiment/json/jsontext"

	"verif/harness/cov"
	"verif/harness/ref"
	"verif/harness/rt"
)

// es6Fast is an allocation-free second implementation of the ECMA-262
// Number::toString layout (with -0 kept), used by the float32 sweep. It takes
// the shortest digits from strconv's 'e' format (trusted) and lays them out.
// It is cross-checked against ref.ES6 by selfTest.
func es6Fast(dst []byte, f float64, bits int, scratch *[40]byte) []byte {
	if f == 0 {
		if math.Signbit(f) {
			dst = append(dst, '-')
		}
		return append(dst, '0')
	}
	if f < 0 {
		dst = append(dst, '-')
		f = -f
	}
	e := strconv.AppendFloat(scratch[:0], f, 'e', -1, bits) // d[.ddd]e±xx
	var dig [24]byte
	k := 0
	i := 0
	for ; e[i] != 'e'; i++ {
		if e[i] != '.' {
			dig[k] = e[i]
			k++
		}
	}
	i++
	eneg := e[i] == '-'
	i++
	x := 0
	for ; i < len(e); i++ {
		x = x*10 + int(e[i]-'0')
	}
	if eneg {
		x = -x
	}
	n := x + 1
	switch {
	case k <= n && n <= 21:
		dst = append(dst, dig[:k]...)
		for j := k; j < n; j++ {
			dst = append(dst, '0')
		}
	case 0 < n && n <= 21:
		dst = append(dst, dig[:n]...)
		dst = append(dst, '.')
		dst = append(dst, dig[n:k]...)
	case -6 < n && n <= 0:
		dst = append(dst, '0', '.')
		for j := 0; j < -n; j++ {
			dst = append(dst, '0')
		}
		dst = append(dst, dig[:k]...)
	default:
		dst = append(dst, dig[0])
		if k > 1 {
			dst = append(dst, '.')
			dst = append(dst, dig[1:k]...)
		}
		dst = append(dst, 'e')
		ex := n - 1
		if ex < 0 {
			dst = append(dst, '-')
			ex = -ex
		} else {
			dst = append(dst, '+')
		}
		dst = strconv.AppendInt(dst, int64(ex), 10)
	}
	return dst
}

// sweepFloat32 runs every float32 bit pattern (thorough) or a strided subset
// of 65536-pattern blocks (quick) through AppendFloat(.,32) -> parse ->
// identical bits and the layout oracle. The inner loop is allocation-free and
// bypasses rt; a pattern that fails it (and one pattern in every 1024) is
// handed to the full RunFloat decider through yield, so that a failure is
// reported and saved as an ordinary single-pattern case.
func sweepFloat32(e *rt.Env, yield func(FloatCase) bool) {
	const blocks = 1 << 16
	stride := int64(64)
	if e.Thorough() {
		stride = 1
	}
	off := int64(e.Offset("f32-sweep", int(stride)))
	var done, skipped, nontriv, full int64
	complete := true
	buf := make([]byte, 0, 64)
	want := make([]byte, 0, 64)
	var scratch [40]byte
	var owned int64
outer:
	for b := int64(0); b < blocks; b++ {
		if b%stride != off {
			continue
		}
		owned++
		if !e.Mine(owned) {
			continue
		}
		for lo := uint32(0); lo < 1<<16; lo++ {
			bitsv := uint32(b)<<16 | lo
			f32 := math.Float32frombits(bitsv)
			if f32 != f32 || f32 > math.MaxFloat32 || f32 < -math.MaxFloat32 {
				skipped++
				continue
			}
			f := float64(f32)
			buf = jsontext.AppendFloat(buf[:0], f, 32)
			g, err := strconv.ParseFloat(unsafe.String(unsafe.SliceData(buf), len(buf)), 32)
			want = es6Fast(want[:0], f, 32, &scratch)
			done++
			bad := err != nil || math.Float32bits(float32(g)) != bitsv || !bytes.Equal(buf, want)
			if len(want) >= 8 {
				// digit count >= 8 iff text minus sign/point/exponent is long; cheap proxy below
				if sig := sigDigitsBytes(want); sig >= 8 {
					nontriv++
				}
			}
			if bad || lo&1023 == uint32(b)&1023 {
				full++
				if !yield(FloatCase{Bits: uint64(bitsv), F32: true}) {
					complete = false
					break outer
				}
				if bad {
					// the fast loop disagrees but the full decider accepted the case:
					// the two oracles disagree with each other
					oracleBug("float32 sweep: fast oracle rejects pattern %#x (AppendFloat=%s, es6Fast=%s, parse err=%v) but RunFloat accepts it", bitsv, buf, want, err)
				}
			}
		}
	}
	e.Rec.EvalN(done)
	e.Rec.NonTrivialDistinct(nontriv)
	e.Rec.ClassN("f32-sweep:patterns-formatted-and-parsed-back", done)
	e.Rec.ClassN("f32-sweep:NaN/Inf-patterns-skipped", skipped)
	e.Rec.ClassN("f32-sweep:patterns-with->=8-significant-digits", nontriv)
	name := "all 2^32 float32 bit patterns: AppendFloat(.,32) == ECMA layout of shortest digits, parses back to identical bits (NaN/Inf skipped); 1/1024 of them through every Marshal/Token/Unmarshal path"
	if stride != 1 {
		name = fmt.Sprintf("float32 bit patterns, STRIDED: one 65536-pattern block in every %d (offset %d): AppendFloat(.,32) == ECMA layout, parses back to identical bits", stride, off)
		complete = false
	}
	e.Rec.AddPart(cov.Part{Name: name, Size: done + skipped, Complete: complete, Stride: stride})
}

func sigDigitsBytes(b []byte) int {
	n := 0
	lead := true
	trail := 0
	for _, c := range b {
		if c == 'e' {
			break
		}
		if c < '0' || c > '9' {
			continue
		}
		if lead && c == '0' {
			continue
		}
		lead = false
		n++
		if c == '0' {
			trail++
		} else {
			trail = 0
		}
	}
	return n - trail
}

// selfTest cross-checks the oracles against fixed vectors (ECMA-262 examples,
// RFC 8785 appendix B) and against each other. Failures make the run
// inconclusive, never a violation.
func selfTest(e *rt.Env) {
	vec := []struct {
		bits uint64
		want string
	}{
		{0x0000000000000000, "0"}, {0x8000000000000000, "-0"}, {0x0000000000000001, "5e-324"}, {0x8000000000000001, "-5e-324"},
		{0x7fefffffffffffff, "1.7976931348623157e+308"}, {0xffefffffffffffff, "-1.7976931348623157e+308"},
		{0x4340000000000000, "9007199254740992"}, {0xc340000000000000, "-9007199254740992"}, {0x4430000000000000, "295147905179352830000"},
		{0x44b52d02c7e14af5, "9.999999999999997e+22"}, {0x44b52d02c7e14af6, "1e+23"}, {0x44b52d02c7e14af7, "1.0000000000000001e+23"},
		{0x444b1ae4d6e2ef4e, "999999999999999700000"}, {0x444b1ae4d6e2ef4f, "999999999999999900000"}, {0x444b1ae4d6e2ef50, "1e+21"},
		{0x3eb0c6f7a0b5ed8c, "9.999999999999997e-7"}, {0x3eb0c6f7a0b5ed8d, "0.000001"},
		{0x41b3de4355555553, "333333333.3333332"}, {0x41b3de4355555554, "333333333.33333325"}, {0x41b3de4355555555, "333333333.3333333"},
		{0x41b3de4355555556, "333333333.3333334"}, {0x41b3de4355555557, "333333333.33333343"}, {0xbecbf647612f3696, "-0.0000033333333333333333"},
		{0x43143ff3c1cb0959, "1424953923781206.2"},
	}
	var scratch [40]byte
	for _, v := range vec {
		f := math.Float64frombits(v.bits)
		if got := ref.ES6(f, 64); got != v.want {
			e.OracleFail(fmt.Sprintf("ref.ES6(%#x) = %s, RFC 8785 vector says %s", v.bits, got, v.want))
		}
		if got := es6Fast(nil, f, 64, &scratch); string(got) != v.want {
			e.OracleFail(fmt.Sprintf("es6Fast(%#x) = %s, RFC 8785 vector says %s", v.bits, got, v.want))
		}
	}
	// es6Fast vs ref.ES6 on a deterministic spread of float32 and float64 patterns
	x := uint64(0x9e3779b97f4a7c15)
	for i := 0; i < 200000; i++ {
		x ^= x << 13
		x ^= x >> 7
		x ^= x << 17
		f := math.Float64frombits(x)
		if !math.IsNaN(f) && !math.IsInf(f, 0) {
			if a, b := ref.ES6(f, 64), es6Fast(nil, f, 64, &scratch); a != string(b) {
				e.OracleFail(fmt.Sprintf("ref.ES6 and es6Fast disagree on float64 %#x: %s vs %s", x, a, b))
				return
			}
		}
		g := float64(math.Float32frombits(uint32(x)))
		if !math.IsNaN(g) && !math.IsInf(g, 0) {
			if a, b := ref.ES6(g, 32), es6Fast(nil, g, 32, &scratch); a != string(b) {
				e.OracleFail(fmt.Sprintf("ref.ES6 and es6Fast disagree on float32 %#x: %s vs %s", uint32(x), a, b))
				return
			}
		}
	}
	// literal analysis sanity
	for _, c := range []struct {
		lit          string
		valid, plain bool
	}{{"0", true, true}, {"-0", true, true}, {"01", false, false}, {"1.0", true, false}, {"1e5", true, false}, {"-", false, false}, {"1.", false, false}, {".5", false, false}, {"+1", false, false}, {"1E+05", true, false}} {
		if isJSONNumber(c.lit) != c.valid || isPlainInt(c.lit) != c.plain {
			e.OracleFail("literal grammar self-test failed on " + c.lit)
		}
	}
}

// Package c10 decides property C10: numbers are converted exactly in both
// directions (float formatting per ECMA-262 with shortest round-trip digits,
// exact integer printing, correctly rounded / exact-or-refused parsing into
// every numeric kind incl. quoted forms, and the documented behaviour of the
// jsontext.Token number accessors).
package c10

import (
	"bytes"
	"errors"
	"fmt"
	"math"
	"math/big"
	"reflect"
	"strconv"
	"strings"
	"sync"
	"unicode/utf8"

	"github.com/go-json-experiment/json"
	"github.com/go-json-experiment/json/jsontext"
	jsonv1 "github.com/go-json-experiment/json/v1"

	"verif/harness/cov"
	"verif/harness/ref"
	"verif/harness/rt"
)

var rec = cov.New()

// oracleFail is set by TestCheck; it reports a failure of the oracle's own
// cross-checks (inconclusive run, never a violation).
var oracleFail = func(msg string) {}

var oracleFailOnce sync.Map

func oracleBug(format string, a ...any) {
	msg := fmt.Sprintf(format, a...)
	key := msg
	if len(key) > 40 {
		key = key[:40]
	}
	if _, dup := oracleFailOnce.LoadOrStore(key, true); !dup {
		oracleFail(msg)
	}
}

// ---------------------------------------------------------------------------
// numeric kinds

type kindInfo struct {
	Name    string
	T       reflect.Type
	Signed  bool
	Float   bool
	Bits    int
	Min     *big.Int
	Max     *big.Int
	StructT reflect.Type // struct{ F T `json:",string"` }
	SibT    reflect.Type // struct{ A int8 `json:",string"`; F T }
	MapT    reflect.Type // map[T]int
}

var kinds []*kindInfo
var kindByName = map[string]*kindInfo{}

func pow2(k int) *big.Int { return new(big.Int).Lsh(big.NewInt(1), uint(k)) }

func init() {
	add := func(name string, v any, signed, float bool, bits int) {
		k := &kindInfo{Name: name, T: reflect.TypeOf(v), Signed: signed, Float: float, Bits: bits}
		if !float {
			if signed {
				k.Min = new(big.Int).Neg(pow2(bits - 1))
				k.Max = new(big.Int).Sub(pow2(bits-1), big.NewInt(1))
			} else {
				k.Min = big.NewInt(0)
				k.Max = new(big.Int).Sub(pow2(bits), big.NewInt(1))
			}
		}
		k.StructT = reflect.StructOf([]reflect.StructField{{Name: "F", Type: k.T, Tag: `json:",string"`}})
		k.SibT = reflect.StructOf([]reflect.StructField{{Name: "A", Type: reflect.TypeFor[int8](), Tag: `json:",string"`}, {Name: "F", Type: k.T}})
		k.MapT = reflect.MapOf(k.T, reflect.TypeOf(int(0)))
		kinds = append(kinds, k)
		kindByName[name] = k
	}
	add("int8", int8(0), true, false, 8)
	add("int16", int16(0), true, false, 16)
	add("int32", int32(0), true, false, 32)
	add("int64", int64(0), true, false, 64)
	add("int", int(0), true, false, strconv.IntSize)
	add("uint8", uint8(0), false, false, 8)
	add("uint16", uint16(0), false, false, 16)
	add("uint32", uint32(0), false, false, 32)
	add("uint64", uint64(0), false, false, 64)
	add("uint", uint(0), false, false, strconv.IntSize)
	add("uintptr", uintptr(0), false, false, strconv.IntSize)
	add("float32", float32(0), false, true, 32)
	add("float64", float64(0), false, true, 64)
}

// ---------------------------------------------------------------------------
// literal analysis (independent of the code under test)

func isDigit(c byte) bool { return '0' <= c && c <= '9' }

// isJSONNumber reports whether s matches -?(0|[1-9][0-9]*)(\.[0-9]+)?([eE][+-]?[0-9]+)?
func isJSONNumber(s string) bool {
	i := 0
	if i < len(s) && s[i] == '-' {
		i++
	}
	switch {
	case i < len(s) && s[i] == '0':
		i++
	case i < len(s) && s[i] >= '1' && s[i] <= '9':
		for i < len(s) && isDigit(s[i]) {
			i++
		}
	default:
		return false
	}
	if i < len(s) && s[i] == '.' {
		i++
		j := i
		for i < len(s) && isDigit(s[i]) {
			i++
		}
		if i == j {
			return false
		}
	}
	if i < len(s) && (s[i] == 'e' || s[i] == 'E') {
		i++
		if i < len(s) && (s[i] == '+' || s[i] == '-') {
			i++
		}
		j := i
		for i < len(s) && isDigit(s[i]) {
			i++
		}
		if i == j {
			return false
		}
	}
	return i == len(s)
}

// isPlainInt reports whether s matches -?(0|[1-9][0-9]*).
func isPlainInt(s string) bool {
	return isJSONNumber(s) && !strings.ContainsAny(s, ".eE")
}

var (
	minI64 = new(big.Int).Neg(pow2(63))
	maxI64 = new(big.Int).Sub(pow2(63), big.NewInt(1))
	maxU64 = new(big.Int).Sub(pow2(64), big.NewInt(1))
	bigZ   = big.NewInt(0)
)

type litInfo struct {
	lit      string
	valid    bool
	plainInt bool
	neg      bool     // literal starts with '-'
	iv       *big.Int // exact value of a plain integer
	f64      float64
	over64   bool
	f32      float64
	over32   bool
	// truncation toward zero of the exact value; infSign != 0 when the value
	// is too large to materialise (absurd exponent): treat as +-infinity.
	trunc   *big.Int
	infSign int
	digits  int // significant digits of the mantissa
}

func analyse(lit string) *litInfo {
	li := &litInfo{lit: lit, valid: isJSONNumber(lit)}
	if !li.valid {
		return li
	}
	li.plainInt = isPlainInt(lit)
	li.neg = lit[0] == '-'
	if li.plainInt {
		li.iv, _ = new(big.Int).SetString(lit, 10)
	}
	li.f64, li.over64 = ref.RoundFloat(lit, 64)
	li.f32, li.over32 = ref.RoundFloat(lit, 32)
	mant := lit
	exp := ""
	if i := strings.IndexAny(lit, "eE"); i >= 0 {
		mant, exp = lit[:i], lit[i+1:]
	}
	sig := strings.TrimLeft(strings.NewReplacer("-", "", ".", "").Replace(mant), "0")
	li.digits = len(sig)
	if r := ref.RatOf(lit); r != nil {
		li.trunc = new(big.Int).Quo(r.Num(), r.Denom()) // big.Int.Quo truncates toward zero
	} else {
		switch {
		case sig == "" || strings.HasPrefix(exp, "-"):
			li.trunc = big.NewInt(0)
		case li.neg:
			li.infSign = -1
		default:
			li.infSign = +1
		}
	}
	return li
}

func clampI64(t *big.Int, infSign int) int64 {
	switch {
	case infSign > 0 || (t != nil && t.Cmp(maxI64) > 0):
		return math.MaxInt64
	case infSign < 0 || (t != nil && t.Cmp(minI64) < 0):
		return math.MinInt64
	}
	return t.Int64()
}

func clampU64(t *big.Int, infSign int) uint64 {
	switch {
	case infSign > 0 || (t != nil && t.Cmp(maxU64) > 0):
		return math.MaxUint64
	case infSign < 0 || (t != nil && t.Sign() < 0):
		return 0
	}
	return t.Uint64()
}

// truncOfFloat returns trunc(f) as a big.Int, or an infinity sign.
func truncOfFloat(f float64) (*big.Int, int) {
	switch {
	case math.IsInf(f, +1):
		return nil, +1
	case math.IsInf(f, -1):
		return nil, -1
	case math.IsNaN(f):
		return big.NewInt(0), 0
	}
	t, _ := new(big.Float).SetFloat64(math.Trunc(f)).Int(nil)
	return t, 0
}

type errClass int

const (
	errNone errClass = iota
	errSyntax
	errRange
)

func (c errClass) String() string {
	return [...]string{"nil", "ErrSyntax", "ErrRange"}[c]
}

func classify(err error) (errClass, bool) {
	if err == nil {
		return errNone, true
	}
	s, r := errors.Is(err, strconv.ErrSyntax), errors.Is(err, strconv.ErrRange)
	switch {
	case s && !r:
		return errSyntax, true
	case r && !s:
		return errRange, true
	}
	return errNone, false // neither or both: not a documented classification
}

// ---------------------------------------------------------------------------
// sub-check "literals": Unmarshal of a literal into every numeric kind x mode,
// and the Token accessors on the raw (decoder-produced) token.

// LitCase is a JSON number literal (or, for the quoted modes, arbitrary
// printable-ASCII content that must be refused when it is not a JSON number).
type LitCase struct {
	Lit string `json:"lit"`
	Esc bool   `json:"esc"` // spell the first character of quoted content as a \u00XX escape
}

const (
	modePlain = iota
	modeTag
	modeOpt
	modeKey
	modeSibling       // bare number in a field that follows a `string` field whose value failed (errors are not fatal under legacy semantics)
	modeSiblingQuoted // quoted number in such a field: it carries no option and must be refused
	nModes
)

var modeNames = [...]string{"plain", "string-tag", "StringifyNumbers", "map-key", "field-after-failed-string-field", "quoted-into-field-after-failed-string-field"}

func quoteContent(s string, esc bool) string {
	q, _ := ref.Quote(s, false, false)
	if esc && len(s) > 0 && s[0] < 0x80 && s[0] >= 0x20 && s[0] != '"' && s[0] != '\\' {
		q = `"` + "\\" + "u00" + fmt.Sprintf("%02x", s[0]) + q[2:]
	}
	return q
}

func nearBound(v *big.Int) bool {
	// within 2000 of a bound of some integer kind (or of zero)
	a := new(big.Int).Abs(v)
	d := new(big.Int)
	for _, k := range []int{0, 7, 8, 15, 16, 31, 32, 63, 64} {
		var b *big.Int
		if k == 0 {
			b = bigZ
		} else {
			b = pow2(k)
		}
		d.Sub(a, b)
		if d.CmpAbs(big.NewInt(2000)) <= 0 {
			return true
		}
	}
	return false
}

// RunLit decides one literal case.
func RunLit(c LitCase) error {
	rec.Eval()
	if !utf8.ValidString(c.Lit) {
		return nil // generators never produce these (the case must survive a JSON replay file)
	}
	li := analyse(c.Lit)

	// evidence
	{
		fp := cov.FPs("lit", c.Lit, fmt.Sprint(c.Esc))
		nt := false
		switch {
		case !li.valid:
			rec.Class("lit:not-a-number(quoted modes must refuse)")
		case li.plainInt:
			rec.Class("lit:plain-integer")
			if nearBound(li.iv) {
				rec.Class("lit:integer-within-2000-of-type-bound")
				nt = true
			}
			if li.neg && li.iv.Sign() == 0 {
				rec.Class("lit:minus-zero")
				nt = true
			}
		default:
			rec.Class("lit:fraction-or-exponent")
			if li.trunc != nil {
				if r := ref.RatOf(c.Lit); r != nil && r.IsInt() {
					rec.Class("lit:integer-valued-with-fraction-or-exponent")
					if nearBound(li.trunc) {
						nt = true
					}
				}
			}
		}
		if li.valid {
			if li.digits >= 16 {
				rec.Class("lit:>=16-significant-digits")
				nt = true
			}
			if li.over64 {
				rec.Class("lit:overflows-float64")
			} else if li.over32 {
				rec.Class("lit:overflows-float32-only")
			}
			if li.f64 != 0 && math.Abs(li.f64) < 2.3e-308 {
				rec.Class("lit:float64-subnormal-or-underflow-neighbourhood")
			}
			if li.f64 == 0 && li.digits > 0 {
				rec.Class("lit:underflows-to-zero")
			}
		}
		if c.Esc {
			rec.Class("lit:quoted-content-spelled-with-escape")
		}
		if nt {
			rec.NonTrivial(fp)
			rec.Sample(fp, func() any {
				return map[string]any{"sub": "literals", "literal": c.Lit, "plain_integer": li.plainInt, "float64": strconv.FormatFloat(li.f64, 'g', -1, 64), "overflow64": li.over64}
			})
		}
	}

	q := quoteContent(c.Lit, c.Esc)
	for _, k := range kinds {
		for mode := 0; mode < nModes; mode++ {
			if !li.valid && mode == modePlain {
				continue // grammar of bare values is C01's business
			}
			if err := unmarshalOne(li, q, k, mode); err != nil {
				return err
			}
		}
	}
	if li.valid {
		if err := rawTokenChecks(li); err != nil {
			return err
		}
		// untyped destinations take the number as a float64
		for _, in := range []string{li.lit, "[" + li.lit + "]", `{"k":` + li.lit + `}`} {
			var a any
			var err error
			if p := rt.Guard(func() { err = json.Unmarshal([]byte(in), &a) }); p != nil {
				return fmt.Errorf("Unmarshal(%s) into any panicked: %v", in, p)
			}
			if li.over64 {
				if err == nil {
					return fmt.Errorf("Unmarshal(%s) into any succeeded although the number overflows float64; got %v", in, a)
				}
				continue
			}
			if err != nil {
				return fmt.Errorf("Unmarshal(%s) into any failed: %v", in, err)
			}
			switch x := a.(type) {
			case []any:
				a = x[0]
			case map[string]any:
				a = x["k"]
			}
			f, ok := a.(float64)
			if !ok || math.Float64bits(f) != math.Float64bits(li.f64) {
				return fmt.Errorf("Unmarshal(%s) into any = %v (%T); correctly rounded float64 is %v (bits %#x)", in, a, a, li.f64, math.Float64bits(li.f64))
			}
		}
	}
	return nil
}

func unmarshalOne(li *litInfo, q string, k *kindInfo, mode int) error {
	var in string
	var target reflect.Value
	var opts []json.Options
	switch mode {
	case modePlain:
		in = li.lit
		target = reflect.New(k.T)
	case modeTag:
		in = `{"F":` + q + `}`
		target = reflect.New(k.StructT)
	case modeOpt:
		in = q
		target = reflect.New(k.T)
		opts = []json.Options{json.StringifyNumbers(true)}
	case modeKey:
		in = `{` + q + `:0}`
		target = reflect.New(k.MapT)
	case modeSibling, modeSiblingQuoted:
		if !li.valid && mode == modeSibling {
			return nil
		}
		v := li.lit
		if mode == modeSiblingQuoted {
			v = q
		}
		in = `{"A":"999","F":` + v + `}`
		target = reflect.New(k.SibT)
		opts = []json.Options{jsonv1.ReportErrorsWithLegacySemantics(true)}
	}
	var err error
	if p := rt.Guard(func() { err = json.Unmarshal([]byte(in), target.Interface(), opts...) }); p != nil {
		return fmt.Errorf("Unmarshal(%s) into %s (%s) panicked: %v", in, k.Name, modeNames[mode], p)
	}
	where := fmt.Sprintf("Unmarshal(%s) into %s (%s)", in, k.Name, modeNames[mode])
	if mode == modeSibling || mode == modeSiblingQuoted {
		// "999" does not fit int8: the call fails, and (legacy semantics) goes on with F
		if err == nil {
			return fmt.Errorf("%s succeeded although \"999\" does not fit the int8 field A", where)
		}
		f := target.Elem().Field(1)
		if mode == modeSiblingQuoted {
			if !f.IsZero() {
				return fmt.Errorf("%s stored %v into F: a quoted number was accepted by a field without the `string` option", where, f.Interface())
			}
			return nil
		}
		err = nil // judged below through the value of F
	}

	// expectation
	accept := false
	var wantI *big.Int
	var wantF float64
	switch {
	case !li.valid:
	case k.Float:
		if k.Bits == 32 {
			accept, wantF = !li.over32, li.f32
		} else {
			accept, wantF = !li.over64, li.f64
		}
	default:
		accept = li.plainInt && (k.Signed || !li.neg) && li.iv.Cmp(k.Min) >= 0 && li.iv.Cmp(k.Max) <= 0
		wantI = li.iv
	}
	if !accept && mode == modeSibling {
		return nil // F fails as well: nothing to compare
	}
	if !accept {
		if err == nil {
			why := "is not a JSON number"
			switch {
			case !li.valid:
			case k.Float:
				why = "overflows the type"
			case !li.plainInt:
				why = "has a fraction or exponent"
			case !k.Signed && li.neg:
				why = "has a minus sign (unsigned destination)"
			default:
				why = "is out of range"
			}
			return fmt.Errorf("%s succeeded although the number %s; got %v", where, why, target.Elem().Interface())
		}
		return nil
	}
	if err != nil {
		return fmt.Errorf("%s failed (%v); expected exact value %v", where, err, wantDesc(k, wantI, wantF))
	}
	var got reflect.Value
	switch mode {
	case modePlain, modeOpt:
		got = target.Elem()
	case modeTag:
		got = target.Elem().Field(0)
	case modeSibling:
		got = target.Elem().Field(1)
	case modeKey:
		m := target.Elem()
		if m.Len() != 1 {
			return fmt.Errorf("%s produced a map with %d entries", where, m.Len())
		}
		got = m.MapKeys()[0]
	}
	switch {
	case k.Float:
		g := got.Float()
		if math.Float64bits(g) != math.Float64bits(wantF) {
			return fmt.Errorf("%s = %v (bits %#x); correctly rounded value is %v (bits %#x)", where, g, math.Float64bits(g), wantF, math.Float64bits(wantF))
		}
	case k.Signed:
		if big.NewInt(got.Int()).Cmp(wantI) != 0 {
			return fmt.Errorf("%s = %d; exact value is %s", where, got.Int(), wantI)
		}
	default:
		if new(big.Int).SetUint64(got.Uint()).Cmp(wantI) != 0 {
			return fmt.Errorf("%s = %d; exact value is %s", where, got.Uint(), wantI)
		}
	}
	return nil
}

func wantDesc(k *kindInfo, i *big.Int, f float64) string {
	if k.Float {
		return strconv.FormatFloat(f, 'g', -1, 64)
	}
	return i.String()
}

// rawTokenChecks reads the literal with a Decoder and checks the number
// accessors of the raw token (and of its clone).
func rawTokenChecks(li *litInfo) error {
	var failure error
	if p := rt.Guard(func() {
		d := jsontext.NewDecoder(bytes.NewReader([]byte(li.lit)))
		tok, err := d.ReadToken()
		if err != nil {
			failure = fmt.Errorf("Decoder.ReadToken on %q failed: %v", li.lit, err)
			return
		}
		if tok.Kind() != '0' {
			failure = fmt.Errorf("Decoder.ReadToken on %q returned kind %v", li.lit, tok.Kind())
			return
		}
		if failure = accessorChecks(tok, "raw token "+li.lit, expectRaw(li)); failure != nil {
			return
		}
		cl := tok.Clone()
		d.ReadToken() // invalidates tok, must not affect the clone
		failure = accessorChecks(cl, "cloned raw token "+li.lit, expectRaw(li))
	}); p != nil {
		return fmt.Errorf("token accessors on raw %q panicked: %v", li.lit, p)
	}
	return failure
}

// accExpect is what the documentation of Token.Int/Uint/Float/Float32 promises.
type accExpect struct {
	intVals  []int64    // acceptable values of Int()
	intErr   []errClass // acceptable classifications
	uintVals []uint64
	uintErr  []errClass
	f64      float64
	f64Err   errClass
	f32      float64 // as float64
	f32Err   errClass
	f32Alt   *float64 // additionally acceptable Float32 value (see intTokenExpect)
}

func expectRaw(li *litInfo) accExpect {
	var x accExpect
	ft, fs := truncOfFloat(li.f64)
	// Int
	if li.plainInt {
		if li.iv.Cmp(minI64) >= 0 && li.iv.Cmp(maxI64) <= 0 {
			x.intVals, x.intErr = []int64{li.iv.Int64()}, []errClass{errNone}
		} else {
			x.intVals, x.intErr = []int64{clampI64(li.iv, 0)}, []errClass{errRange}
		}
	} else {
		// "reasonable value": truncation toward zero, saturated. The exact
		// truncation and the truncation of the nearest float64 are both accepted.
		x.intVals, x.intErr = []int64{clampI64(li.trunc, li.infSign), clampI64(ft, fs)}, []errClass{errSyntax}
	}
	// Uint
	if li.plainInt && !li.neg {
		if li.iv.Cmp(maxU64) <= 0 {
			x.uintVals, x.uintErr = []uint64{li.iv.Uint64()}, []errClass{errNone}
		} else {
			x.uintVals, x.uintErr = []uint64{math.MaxUint64}, []errClass{errRange}
		}
	} else {
		x.uintVals, x.uintErr = []uint64{clampU64(li.trunc, li.infSign), clampU64(ft, fs)}, []errClass{errSyntax}
	}
	x.f64, x.f32 = li.f64, li.f32
	if li.over64 {
		x.f64Err = errRange
	}
	if li.over32 {
		x.f32Err = errRange
	}
	return x
}

func hasClass(l []errClass, c errClass) bool {
	for _, x := range l {
		if x == c {
			return true
		}
	}
	return false
}

func accessorChecks(tok jsontext.Token, what string, x accExpect) error {
	{
		v, err := tok.Int()
		cl, ok := classify(err)
		if !ok || !hasClass(x.intErr, cl) {
			return fmt.Errorf("%s: Int() error %v; documented classification %v", what, err, x.intErr)
		}
		found := false
		for _, w := range x.intVals {
			found = found || v == w
		}
		if !found {
			return fmt.Errorf("%s: Int() = %d (err %v); documented value (truncated toward zero, saturated) %v", what, v, err, x.intVals)
		}
	}
	{
		v, err := tok.Uint()
		cl, ok := classify(err)
		if !ok || !hasClass(x.uintErr, cl) {
			return fmt.Errorf("%s: Uint() error %v; documented classification %v", what, err, x.uintErr)
		}
		found := false
		for _, w := range x.uintVals {
			found = found || v == w
		}
		if !found {
			return fmt.Errorf("%s: Uint() = %d (err %v); documented value (truncated toward zero, saturated) %v", what, v, err, x.uintVals)
		}
	}
	{
		v, err := tok.Float()
		cl, ok := classify(err)
		if !ok || cl != x.f64Err {
			return fmt.Errorf("%s: Float() error %v; expected %v", what, err, x.f64Err)
		}
		if math.Float64bits(v) != math.Float64bits(x.f64) {
			return fmt.Errorf("%s: Float() = %v (bits %#x); correctly rounded value %v (bits %#x)", what, v, math.Float64bits(v), x.f64, math.Float64bits(x.f64))
		}
	}
	{
		v, err := tok.Float32()
		cl, ok := classify(err)
		if !ok || cl != x.f32Err {
			return fmt.Errorf("%s: Float32() error %v; expected %v", what, err, x.f32Err)
		}
		if math.Float32bits(v) != math.Float32bits(float32(x.f32)) {
			if x.f32Alt == nil || math.Float32bits(v) != math.Float32bits(float32(*x.f32Alt)) {
				return fmt.Errorf("%s: Float32() = %v (bits %#x); correctly rounded value %v (bits %#x)", what, v, math.Float32bits(v), float32(x.f32), math.Float32bits(float32(x.f32)))
			}
			rec.Class("observation:Float32()-of-integer-token-double-rounded-through-float64")
		}
	}
	return nil
}

// ---------------------------------------------------------------------------
// sub-check "floats": formatting of one float and everything derived from it.

// FloatCase is one float bit pattern. For F32 the low 32 bits are a float32.
type FloatCase struct {
	Bits uint64 `json:"bits"`
	F32  bool   `json:"f32"`
}

func (c FloatCase) value() (f float64, bits int) {
	if c.F32 {
		return float64(math.Float32frombits(uint32(c.Bits))), 32
	}
	return math.Float64frombits(c.Bits), 64
}

var layoutAnchors64 = []float64{1e-7, 1e-6, 1e21, 1e22, 1 << 53, math.MaxFloat64, 0x1p-1022, 5e-324}

func ulpDist64(a, b float64) uint64 {
	x, y := math.Float64bits(math.Abs(a)), math.Float64bits(math.Abs(b))
	if x > y {
		return x - y
	}
	return y - x
}

func ulpDist32(a, b float32) uint32 {
	x, y := math.Float32bits(a)&^(1<<31), math.Float32bits(b)&^(1<<31)
	if x > y {
		return x - y
	}
	return y - x
}

func nearLayoutSwitch(f float64, bits int) bool {
	if bits == 32 {
		g := float32(f)
		for _, a := range []float32{1e-6, 1e21} {
			if ulpDist32(g, a) <= 64 {
				return true
			}
		}
		return false
	}
	for _, a := range []float64{1e-6, 1e21} {
		if ulpDist64(f, a) <= 64 {
			return true
		}
	}
	return false
}

func sigDigits(es6 string) int {
	s := strings.TrimPrefix(es6, "-")
	if i := strings.IndexByte(s, 'e'); i >= 0 {
		s = s[:i]
	}
	s = strings.Replace(s, ".", "", 1)
	s = strings.TrimLeft(s, "0")
	s = strings.TrimRight(s, "0")
	if s == "" {
		return 1
	}
	return len(s)
}

// RunFloat decides one float case.
func RunFloat(c FloatCase) error {
	rec.Eval()
	f, bits := c.value()
	if c.F32 && c.Bits>>32 != 0 {
		return nil
	}
	if math.IsNaN(f) || math.IsInf(f, 0) {
		rec.Class("float:non-finite-skipped")
		return nil
	}
	want := ref.ES6(f, bits)

	// oracle self-checks: the expected text parses back (math/big) to f, and
	// is shortest.
	if back, over := ref.RoundFloat(want, bits); over || math.Float64bits(back) != math.Float64bits(f) {
		oracleBug("ref.ES6(%v,%d)=%s does not round-trip through ref.RoundFloat (got %v)", f, bits, want, back)
		return nil
	}
	if !ref.ShortestOK(f, bits) {
		oracleBug("strconv shortest digits for %v (%d bits) are not shortest", f, bits)
		return nil
	}

	// evidence
	nd := sigDigits(want)
	{
		pfx := "f64"
		if c.F32 {
			pfx = "f32"
		}
		nt := nearLayoutSwitch(f, bits) || (bits == 64 && nd >= 16) || (bits == 32 && nd >= 8)
		if nearLayoutSwitch(f, bits) {
			rec.Class(pfx + ":within-64ulp-of-layout-switch(1e-6|1e21)")
		}
		switch {
		case f == 0:
			rec.Class(pfx + ":zero")
		case strings.Contains(want, "e-"):
			rec.Class(pfx + ":layout-exponent-negative")
			if n := len(want); n >= 3 && want[n-3] == '-' || n >= 2 && want[n-2] == '-' {
				rec.Class(pfx + ":exponent-1-or-2-digits(e-0X clean-up zone)")
			}
		case strings.Contains(want, "e+"):
			rec.Class(pfx + ":layout-exponent-positive")
		case strings.HasPrefix(strings.TrimPrefix(want, "-"), "0."):
			rec.Class(pfx + ":layout-0.000ddd")
		case strings.Contains(want, "."):
			rec.Class(pfx + ":layout-point-inside")
		default:
			rec.Class(pfx + ":layout-integer")
		}
		if (bits == 64 && nd >= 16) || (bits == 32 && nd >= 8) {
			rec.Class(pfx + ":max-precision-digits")
		}
		if bits == 64 && math.Abs(f) < 0x1p-1022 || bits == 32 && math.Abs(f) < 0x1p-126 {
			if f != 0 {
				rec.Class(pfx + ":subnormal")
			}
		}
		if nt {
			fp := cov.FPs("float", pfx, strconv.FormatUint(c.Bits, 16))
			rec.NonTrivial(fp)
			rec.Sample(fp, func() any {
				return map[string]any{"sub": "floats", "bits": fmt.Sprintf("%#x", c.Bits), "float32": c.F32, "expected_text": want}
			})
		}
	}

	var failure error
	if p := rt.Guard(func() { failure = floatPaths(f, bits, want) }); p != nil {
		return fmt.Errorf("float %v (%d bits, pattern %#x): panic: %v", f, bits, c.Bits, p)
	}
	return failure
}

func floatPaths(f float64, bits int, want string) error {
	desc := fmt.Sprintf("float%d %s (bits %#x)", bits, strconv.FormatFloat(f, 'g', -1, bits), math.Float64bits(f))
	// 1. jsontext.AppendFloat
	got := jsontext.AppendFloat([]byte("pfx"), f, bits)
	if string(got) != "pfx"+want {
		return fmt.Errorf("%s: AppendFloat = %q; ECMA-262 shortest form is %q", desc, got[min(3, len(got)):], want)
	}
	// 1b. the same after bytes that look like part of a number (the formatter
	// must only look at what it appended itself)
	for _, pfx := range []string{"1e-300,", "e-", `{"zone-e-b":`, "e-07"} {
		if got := jsontext.AppendFloat([]byte(pfx), f, bits); string(got) != pfx+want {
			return fmt.Errorf("%s: AppendFloat after the bytes %q = %q; expected %q", desc, pfx, got, pfx+want)
		}
	}
	// 2. json.Marshal in the four positions
	k := kindByName["float64"]
	var v reflect.Value
	if bits == 32 {
		k = kindByName["float32"]
		v = reflect.ValueOf(float32(f))
	} else {
		v = reflect.ValueOf(f)
	}
	if err := marshalPositions(desc, k, v, want); err != nil {
		return err
	}
	// 3. constructed token
	var tok jsontext.Token
	if bits == 32 {
		tok = jsontext.Float32(float32(f))
	} else {
		tok = jsontext.Float(f)
	}
	if err := tokenText(desc, tok, want); err != nil {
		return err
	}
	if err := accessorChecks(tok, "constructed token for "+desc, expectFloatToken(f, bits, want)); err != nil {
		// Float(2^63).Int() and Float(2^64).Uint() return the saturated value with a nil error
		if iv, ierr := tok.Int(); f == 0x1p63 && ierr == nil && iv == math.MaxInt64 {
			return rt.Known(knownFloatTokenBound, err)
		}
		if uv, uerr := tok.Uint(); f == 0x1p64 && uerr == nil && uv == math.MaxUint64 {
			return rt.Known(knownFloatTokenBound, err)
		}
		return err
	}
	// 4. the text parses back to the identical bits through Unmarshal
	p := reflect.New(k.T)
	if err := json.Unmarshal([]byte(want), p.Interface()); err != nil {
		return fmt.Errorf("%s: Unmarshal(%s) into %s failed: %v", desc, want, k.Name, err)
	}
	if g := p.Elem().Float(); math.Float64bits(g) != math.Float64bits(f) {
		return fmt.Errorf("%s: Unmarshal(%s) into %s = %v (bits %#x): does not round-trip", desc, want, k.Name, g, math.Float64bits(g))
	}
	return nil
}

// marshalPositions marshals v (of kind k) as a plain value, under the string
// tag, under StringifyNumbers and as a map key, and compares with want.
func marshalPositions(desc string, k *kindInfo, v reflect.Value, want string) error {
	type pos struct {
		name string
		val  any
		opts []json.Options
		want string
	}
	sv := reflect.New(k.StructT).Elem()
	sv.Field(0).Set(v)
	mv := reflect.MakeMap(k.MapT)
	mv.SetMapIndex(v, reflect.ValueOf(0))
	positions := []pos{
		{"plain", v.Interface(), nil, want},
		{"string-tag", sv.Interface(), nil, `{"F":"` + want + `"}`},
		{"StringifyNumbers", v.Interface(), []json.Options{json.StringifyNumbers(true)}, `"` + want + `"`},
		{"map-key", mv.Interface(), nil, `{"` + want + `":0}`},
		// held in interfaces: the untyped fast paths format numbers themselves
		{"after-small-float", []any{1e-300, v.Interface()}, nil, `[1e-300,` + want + `]`},
		{"member-named-e-", map[string]any{"zone-e-b": v.Interface()}, nil, `{"zone-e-b":` + want + `}`},
		{"any-elem", []any{v.Interface()}, nil, `[` + want + `]`},
		{"multiline", v.Interface(), []json.Options{jsontext.Multiline(true)}, want},
		{"space-after-colon-member", map[string]any{"k": v.Interface()}, []json.Options{jsontext.SpaceAfterColon(true)}, `{"k": ` + want + `}`},
		{"with-indent-elem", []any{v.Interface()}, []json.Options{jsontext.WithIndent(" ")}, "[\n " + want + "\n]"},

		{"any-member", map[string]any{"k": v.Interface()}, nil, `{"k":` + want + `}`},
		{"any-field", struct{ A any }{v.Interface()}, nil, `{"A":` + want + `}`},
		{"any-elem-deterministic", []any{v.Interface()}, []json.Options{json.Deterministic(true)}, `[` + want + `]`},
	}
	if !k.Float {
		// a second entry makes the Deterministic path sort the keys (names are
		// compared as strings; digits and '-' sort bytewise)
		other := reflect.New(k.T).Elem()
		otherName := "7"
		if want == "7" {
			otherName = "8"
		}
		if k.Signed {
			other.SetInt(int64(otherName[0] - '0'))
		} else {
			other.SetUint(uint64(otherName[0] - '0'))
		}
		m2 := reflect.MakeMap(k.MapT)
		m2.SetMapIndex(v, reflect.ValueOf(0))
		m2.SetMapIndex(other, reflect.ValueOf(1))
		exp := `{"` + want + `":0,"` + otherName + `":1}`
		if otherName < want {
			exp = `{"` + otherName + `":1,"` + want + `":0}`
		}
		positions = append(positions, pos{"map-key-deterministic", m2.Interface(), []json.Options{json.Deterministic(true)}, exp})
	}
	if k.Float {
		// the format option only changes how NaN and infinities are written
		positions = append(positions,
			pos{"format-nonfinite-field", nonfiniteField(v), []json.Options{json.ExperimentalSupportFormatTag(true)}, `{"F":` + want + `}`},
			pos{"format-nonfinite-ptr-field", nonfiniteField(ptrTo(v)), []json.Options{json.ExperimentalSupportFormatTag(true)}, `{"F":` + want + `}`})
	}
	for _, p := range positions {
		b, err := json.Marshal(p.val, p.opts...)
		if err != nil {
			return fmt.Errorf("%s: Marshal (%s) failed: %v", desc, p.name, err)
		}
		if string(b) != p.want {
			return fmt.Errorf("%s: Marshal (%s) = %s; expected %s", desc, p.name, b, p.want)
		}
	}
	return nil
}

// nonfiniteField wraps v (a float or a pointer to one) into
// struct{ F T `json:",format:nonfinite"` }: finite values keep their usual form.
func nonfiniteField(v reflect.Value) any {
	st := reflect.StructOf([]reflect.StructField{{Name: "F", Type: v.Type(), Tag: `json:",format:nonfinite"`}})
	sv := reflect.New(st).Elem()
	sv.Field(0).Set(v)
	return sv.Interface()
}

func ptrTo(v reflect.Value) reflect.Value {
	p := reflect.New(v.Type())
	p.Elem().Set(v)
	return p
}

func tokenText(desc string, tok jsontext.Token, want string) error {
	if tok.Kind() != '0' {
		return fmt.Errorf("%s: constructed token has kind %v", desc, tok.Kind())
	}
	if s := tok.String(); s != want {
		return fmt.Errorf("%s: Token.String() = %q; expected %q", desc, s, want)
	}
	var buf bytes.Buffer
	enc := jsontext.NewEncoder(&buf)
	if err := enc.WriteToken(tok); err != nil {
		return fmt.Errorf("%s: WriteToken failed: %v", desc, err)
	}
	if buf.String() != want+"\n" {
		return fmt.Errorf("%s: WriteToken wrote %q; expected %q", desc, buf.String(), want+"\n")
	}
	return nil
}

// knownFloatTokenBound classifies the finding that the accessors of a
// constructed float token holding exactly 2^63 (Int) or 2^64 (Uint) saturate
// without reporting ErrRange.
const knownFloatTokenBound = "float-token-exactly-2^63-or-2^64-saturates-without-ErrRange"

// expectFloatToken: documented results of the accessors on Float(f)/Float32(f).
//
// Int/Uint: value = truncation toward zero, saturated. Classification: a
// non-integral value is ErrSyntax; an integral value in range is nil; an
// integral value out of range whose JSON text is a plain integer (|f| < 1e21)
// is ErrRange; for |f| >= 1e21 the JSON text has an exponent, so both ErrSyntax
// (by the text) and ErrRange (by the value) are consistent with the
// documentation and either is accepted.
func expectFloatToken(f float64, bits int, text string) accExpect {
	var x accExpect
	t, _ := truncOfFloat(f)
	integral := math.Trunc(f) == f
	plainText := isPlainInt(text)
	x.intVals = []int64{clampI64(t, 0)}
	switch {
	case !integral:
		x.intErr = []errClass{errSyntax}
	case t.Cmp(minI64) >= 0 && t.Cmp(maxI64) <= 0:
		x.intErr = []errClass{errNone}
	case plainText:
		x.intErr = []errClass{errRange}
	default:
		x.intErr = []errClass{errRange, errSyntax}
	}
	x.uintVals = []uint64{clampU64(t, 0)}
	switch {
	case !integral || math.Signbit(f):
		x.uintErr = []errClass{errSyntax}
	case t.Cmp(maxU64) <= 0:
		x.uintErr = []errClass{errNone}
	case plainText:
		x.uintErr = []errClass{errRange}
	default:
		x.uintErr = []errClass{errRange, errSyntax}
	}
	x.f64 = f
	x.f32 = float64(float32(f))
	if math.IsInf(x.f32, 0) {
		x.f32Err = errRange
	}
	return x
}

// ---------------------------------------------------------------------------
// sub-check "ints": exact printing of integers of every kind.

// IntCase is one integer of a kind; I is used for signed kinds, U for unsigned.
type IntCase struct {
	Kind string `json:"kind"`
	I    int64  `json:"i"`
	U    uint64 `json:"u"`
}

// RunInt decides one integer case.
func RunInt(c IntCase) error {
	rec.Eval()
	k := kindByName[c.Kind]
	if k == nil || k.Float {
		return nil
	}
	v := reflect.New(k.T).Elem()
	var exact *big.Int
	if k.Signed {
		v.SetInt(c.I) // truncates to the kind
		exact = big.NewInt(v.Int())
	} else {
		v.SetUint(c.U)
		exact = new(big.Int).SetUint64(v.Uint())
	}
	want := exact.String()
	desc := fmt.Sprintf("%s(%s)", k.Name, want)

	rec.Class("int:" + k.Name)
	fp := cov.FPs("int", k.Name, want)
	d1 := new(big.Int).Sub(exact, k.Min)
	d2 := new(big.Int).Sub(k.Max, exact)
	if d1.Cmp(big.NewInt(2000)) <= 0 || d2.Cmp(big.NewInt(2000)) <= 0 || len(strings.TrimPrefix(want, "-")) >= 16 {
		if d1.Sign() == 0 || d2.Sign() == 0 {
			rec.Class("int:exactly-at-type-bound")
		}
		rec.NonTrivial(fp)
		rec.Sample(fp, func() any { return map[string]any{"sub": "ints", "kind": k.Name, "value": want} })
	}

	var failure error
	if p := rt.Guard(func() {
		if failure = marshalPositions(desc, k, v, want); failure != nil {
			return
		}
		// round trip through Unmarshal
		p := reflect.New(k.T)
		if err := json.Unmarshal([]byte(want), p.Interface()); err != nil {
			failure = fmt.Errorf("%s: Unmarshal(%s) failed: %v", desc, want, err)
			return
		}
		if !p.Elem().Equal(v) {
			failure = fmt.Errorf("%s: Unmarshal(%s) = %v", desc, want, p.Elem().Interface())
			return
		}
		// constructed tokens (only the 64-bit constructors exist)
		var tok jsontext.Token
		if k.Signed {
			tok = jsontext.Int(v.Int())
		} else {
			tok = jsontext.Uint(v.Uint())
		}
		if failure = tokenText(desc, tok, want); failure != nil {
			return
		}
		failure = accessorChecks(tok, "constructed token for "+desc, expectIntToken(exact))
	}); p != nil {
		return fmt.Errorf("%s: panic: %v", desc, p)
	}
	return failure
}

// expectIntToken: accessors on Int(n)/Uint(n). Float() is the correctly
// rounded float64. Float32(): the documentation promises the value "parsed
// according to 32 bits of precision"; the implementation converts through
// float64 first, which can differ by double rounding for integers above 2^53;
// the property statement does not cover Float32 on integer tokens, so the
// double-rounded value is accepted as well (and counted as an observation).
func expectIntToken(n *big.Int) accExpect {
	var x accExpect
	text := n.String()
	switch {
	case n.Cmp(minI64) >= 0 && n.Cmp(maxI64) <= 0:
		x.intVals, x.intErr = []int64{n.Int64()}, []errClass{errNone}
	default:
		x.intVals, x.intErr = []int64{clampI64(n, 0)}, []errClass{errRange}
	}
	switch {
	case n.Sign() < 0:
		x.uintVals, x.uintErr = []uint64{0}, []errClass{errSyntax}
	default:
		x.uintVals, x.uintErr = []uint64{n.Uint64()}, []errClass{errNone}
	}
	x.f64, _ = ref.RoundFloat(text, 64)
	x.f32, _ = ref.RoundFloat(text, 32)
	alt := float64(float32(x.f64))
	x.f32Alt = &alt
	return x
}

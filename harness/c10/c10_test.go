package c10

import (
	"runtime"
	"runtime/debug"
	"testing"

	"verif/harness/rt"
)

func TestCheck(t *testing.T) {
	// one shard is a single-threaded workload; 16 shards share the machine
	runtime.GOMAXPROCS(2)
	debug.SetGCPercent(400)
	e := rt.Setup(t, "C10")
	defer e.Finish()
	rec = e.Rec
	oracleFail = e.OracleFail

	selfTest(e)

	// (a) bounded-exhaustive layers
	rt.Enum(e, "lit-bounds", func(yield func(LitCase) bool) { enumIntLiterals(e, yield) }, RunLit)
	rt.Enum(e, "lit-overflow-ties", func(yield func(LitCase) bool) { enumOverflowTies(e, yield) }, RunLit)
	rt.Enum(e, "float-neighbours", func(yield func(FloatCase) bool) { enumFloatNeighbours(e, yield) }, RunFloat)
	rt.Enum(e, "int-bounds", func(yield func(IntCase) bool) { enumIntBounds(e, yield) }, RunInt)

	// (b) random layers
	rt.Rapid(e, "literals", 1_000_000, 6_000_000, genLit, RunLit)
	rt.Rapid(e, "floats", 2_000_000, 40_000_000, genFloat, RunFloat)
	rt.Rapid(e, "ints", 1_000_000, 20_000_000, genInt, RunInt)

	// (c) float32 sweep: complete in the thorough tier, strided in the quick tier
	rt.Enum(e, "f32-sweep", func(yield func(FloatCase) bool) { sweepFloat32(e, yield) }, RunFloat)
}

package c10

import (
	"fmt"
	"math"
	"math/big"
	"strconv"
	"strings"

	"pgregory.net/rapid"

	"verif/harness/cov"
	"verif/harness/rt"
)

// ---------------------------------------------------------------------------
// rapid generators

var boundExps = []int{7, 8, 15, 16, 31, 32, 63, 64}

func genDelta(t *rapid.T) int64 {
	switch rapid.IntRange(0, 3).Draw(t, "deltaClass") {
	case 0:
		return int64(rapid.IntRange(-3, 3).Draw(t, "delta"))
	case 1:
		return int64(rapid.IntRange(-20, 20).Draw(t, "delta"))
	default:
		return int64(rapid.IntRange(-2000, 2000).Draw(t, "delta"))
	}
}

func digits(t *rapid.T, n int, label string) string {
	b := make([]byte, n)
	for i := range b {
		b[i] = byte('0' + rapid.IntRange(0, 9).Draw(t, label))
	}
	return string(b)
}

func genLen(t *rapid.T, label string, max int) int {
	switch rapid.IntRange(0, 9).Draw(t, label+"Class") {
	case 0:
		return rapid.IntRange(0, max).Draw(t, label)
	case 1, 2:
		return rapid.IntRange(15, 22).Draw(t, label)
	default:
		return rapid.IntRange(0, 12).Draw(t, label)
	}
}

// exactDecimal returns the exact decimal expansion of a dyadic rational.
func exactDecimal(r *big.Rat) string {
	// denominator is a power of two 2^k: k fractional digits are exact
	k := r.Denom().BitLen() - 1
	return r.FloatString(k)
}

func genHalfway(t *rapid.T) string {
	var lo, hi float64
	if rapid.Bool().Draw(t, "half32") {
		exp := rapid.IntRange(1, 254).Draw(t, "exp32")
		if rapid.IntRange(0, 3).Draw(t, "expClass32") == 0 {
			exp = rapid.SampledFrom([]int{1, 103, 107, 126, 127, 128, 150, 151, 196, 197, 254}).Draw(t, "exp32s")
		}
		mant := uint32(rapid.Uint32Range(0, 1<<23-1).Draw(t, "mant32"))
		switch rapid.IntRange(0, 4).Draw(t, "mantClass32") {
		case 0:
			mant = 0
		case 1:
			mant = 1<<23 - 1
		case 2:
			mant &= 0xff
		}
		a := math.Float32frombits(uint32(exp)<<23 | mant)
		b := math.Nextafter32(a, float32(math.Inf(1)))
		if math.IsInf(float64(b), 0) {
			b = a
			a = math.Nextafter32(a, 0)
		}
		lo, hi = float64(a), float64(b)
	} else {
		exp := rapid.IntRange(700, 1400).Draw(t, "exp64") // keep the exact expansion below ~400 digits
		mant := rapid.Uint64Range(0, 1<<52-1).Draw(t, "mant64")
		switch rapid.IntRange(0, 4).Draw(t, "mantClass64") {
		case 0:
			mant = 0
		case 1:
			mant = 1<<52 - 1
		case 2:
			mant &= 0xff
		}
		lo = math.Float64frombits(uint64(exp)<<52 | mant)
		hi = math.Nextafter(lo, math.Inf(1))
	}
	mid := new(big.Rat).Add(new(big.Rat).SetFloat64(lo), new(big.Rat).SetFloat64(hi))
	mid.Quo(mid, big.NewRat(2, 1))
	s := exactDecimal(mid)
	switch rapid.IntRange(0, 4).Draw(t, "halfVariant") {
	case 0: // exact tie
	case 1: // just above
		if !strings.Contains(s, ".") {
			s += ".0"
		}
		s += strings.Repeat("0", rapid.IntRange(0, 30).Draw(t, "pad")) + "1"
	case 2: // just below: decrement the last non-zero digit, append 9s
		b := []byte(s)
		i := len(b) - 1
		for i >= 0 && (b[i] == '0' || b[i] == '.') {
			i--
		}
		if i >= 0 && b[i] >= '1' && b[i] <= '9' {
			b[i]--
			for j := i + 1; j < len(b); j++ {
				if b[j] == '0' {
					b[j] = '9'
				}
			}
			s = string(b)
			if !strings.Contains(s, ".") {
				s += ".9"
			}
			s += strings.Repeat("9", rapid.IntRange(0, 30).Draw(t, "pad"))
			// normalise a leading zero produced by the decrement ("0999" is not JSON)
			neg := strings.HasPrefix(s, "-")
			s = strings.TrimPrefix(s, "-")
			for len(s) > 1 && s[0] == '0' && s[1] != '.' {
				s = s[1:]
			}
			if neg {
				s = "-" + s
			}
		}
	case 3: // the lower float itself, exactly
		s = exactDecimal(new(big.Rat).SetFloat64(lo))
	case 4: // tie written with an exponent
		if !strings.Contains(s, ".") {
			s += "e0"
		} else {
			s += "e+0"
		}
	}
	if rapid.IntRange(0, 3).Draw(t, "halfNeg") == 0 {
		s = "-" + s
	}
	return s
}

var garbage = []string{"", " ", "+1", "01", "-01", "00", "1.", ".5", "-.5", "1e", "1e+", "1E-", "-", "--1", "+-1", " 1", "1 ", "\t1", "1\n",
	"0x10", "0X1p3", "1_000", "1,000", "Infinity", "-Infinity", "+Inf", "inf", "NaN", "nan", "null", "true", "1f", "1d", "1L", "0b1", "0o7",
	"1e1.5", "1.5.5", "1ee1", "1e+-1", "0.e1", "-0x0", "１", "٣", "1\x00", "\"1\"", "1.0e", "e1", ".", "-.", "0-", "1-", "1+1", "2/1", "１２"}

func genGarbage(t *rapid.T) string {
	if rapid.Bool().Draw(t, "listed") {
		return rapid.SampledFrom(garbage).Draw(t, "garbage")
	}
	// a valid literal damaged by one printable-ASCII edit
	b := []byte(genValidLit(t, false))
	pos := rapid.IntRange(0, len(b)).Draw(t, "pos")
	ch := rapid.SampledFrom([]byte(" +-.eE0_xa,")).Draw(t, "ch")
	switch rapid.IntRange(0, 2).Draw(t, "edit") {
	case 0:
		b = append(b[:pos], append([]byte{ch}, b[pos:]...)...)
	case 1:
		if pos < len(b) {
			b[pos] = ch
		}
	case 2:
		if pos < len(b) {
			b = append(b[:pos], b[pos+1:]...)
		}
	}
	return string(b)
}

func fmtFloatJSON(f float64, fmtc byte, prec, bits int) string {
	s := strconv.FormatFloat(f, fmtc, prec, bits)
	return s
}

func genValidLit(t *rapid.T, allowHuge bool) string {
	cls := rapid.IntRange(0, 9).Draw(t, "litClass")
	switch cls {
	case 0, 1: // near +-2^k
		k := rapid.SampledFrom(boundExps).Draw(t, "k")
		v := pow2(k)
		if rapid.Bool().Draw(t, "neg") {
			v.Neg(v)
		}
		v.Add(v, big.NewInt(genDelta(t)))
		return v.String()
	case 2: // near +-10^k
		k := rapid.IntRange(1, 22).Draw(t, "k10")
		v := new(big.Int).Exp(big.NewInt(10), big.NewInt(int64(k)), nil)
		if rapid.Bool().Draw(t, "neg") {
			v.Neg(v)
		}
		v.Add(v, big.NewInt(genDelta(t)))
		return v.String()
	case 3: // integers spelled with a fraction or exponent
		k := rapid.SampledFrom(append([]int{0, 1, 4}, boundExps...)).Draw(t, "k")
		v := pow2(k)
		if k == 0 {
			v = big.NewInt(0)
		}
		if rapid.Bool().Draw(t, "neg") {
			v.Neg(v)
		}
		v.Add(v, big.NewInt(int64(rapid.IntRange(-2, 2).Draw(t, "delta"))))
		s := v.String()
		switch rapid.IntRange(0, 7).Draw(t, "spelling") {
		case 0:
			return s + ".0"
		case 1:
			return s + ".000"
		case 2:
			return s + "e0"
		case 3:
			return s + "E+0"
		case 4:
			return s + "e-0"
		case 5:
			if v.Sign() == 0 {
				return s + "e5"
			}
			return s + "0e-1"
		case 6:
			if len(strings.TrimPrefix(s, "-")) >= 2 {
				return s[:len(s)-1] + "." + s[len(s)-1:] + "e1"
			}
			return s + ".0e0"
		default:
			return s + "00E-2"
		}
	case 4: // zeros
		return rapid.SampledFrom([]string{"0", "-0", "0.0", "-0.0", "0e0", "-0e0", "0E-5", "-0e+5", "0.000", "0e400", "-0.0e-400", "0e999999999", "-0e-999999999"}).Draw(t, "zero")
	case 5, 6: // random digit strings
		var sb strings.Builder
		if rapid.Bool().Draw(t, "neg") {
			sb.WriteByte('-')
		}
		n := genLen(t, "intLen", 400)
		if n == 0 {
			sb.WriteByte('0')
		} else {
			sb.WriteByte(byte('1' + rapid.IntRange(0, 8).Draw(t, "lead")))
			sb.WriteString(digits(t, n-1, "d"))
		}
		if rapid.Bool().Draw(t, "hasFrac") {
			sb.WriteByte('.')
			sb.WriteString(digits(t, 1+genLen(t, "fracLen", 399), "f"))
		}
		if rapid.Bool().Draw(t, "hasExp") {
			sb.WriteByte(rapid.SampledFrom([]byte("eE")).Draw(t, "e"))
			sb.WriteString(rapid.SampledFrom([]string{"", "+", "-"}).Draw(t, "esign"))
			switch rapid.IntRange(0, 9).Draw(t, "expClass") {
			case 0:
				if allowHuge {
					sb.WriteString(rapid.SampledFrom([]string{"999999999", "100001", "99999999999999999999", "2147483648", "18446744073709551616"}).Draw(t, "hugeExp"))
				} else {
					sb.WriteString("400")
				}
			case 1:
				sb.WriteString("00" + strconv.Itoa(rapid.IntRange(0, 40).Draw(t, "exp")))
			case 2, 3:
				sb.WriteString(strconv.Itoa(rapid.IntRange(290, 400).Draw(t, "exp")))
			default:
				sb.WriteString(strconv.Itoa(rapid.IntRange(0, 40).Draw(t, "exp")))
			}
		}
		return sb.String()
	case 7: // decimal spellings of random floats
		var f float64
		bits := 64
		if rapid.Bool().Draw(t, "from32") {
			bits = 32
			f = float64(math.Float32frombits(rapid.Uint32().Draw(t, "bits32")))
		} else {
			f = math.Float64frombits(rapid.Uint64().Draw(t, "bits64"))
		}
		if math.IsNaN(f) || math.IsInf(f, 0) {
			f = 1.5
		}
		switch rapid.IntRange(0, 3).Draw(t, "fmt") {
		case 0:
			return fmtFloatJSON(f, 'e', -1, bits)
		case 1:
			return fmtFloatJSON(f, 'e', 16, 64)
		case 2:
			return fmtFloatJSON(f, 'e', rapid.IntRange(0, 40).Draw(t, "prec"), 64)
		default:
			if math.Abs(f) < 1e60 && math.Abs(f) > 1e-60 {
				return fmtFloatJSON(f, 'f', -1, bits)
			}
			return fmtFloatJSON(f, 'E', -1, bits)
		}
	case 8: // halfway cases
		return genHalfway(t)
	default: // overflow thresholds and friends
		base := rapid.SampledFrom([]string{maxF64Tie, maxF32Tie, "4.9406564584124654e-324", "2.4703282292062327e-324", "2.4703282292062328e-324",
			"2.2250738585072011e-308", "2.2250738585072014e-308", "1.7976931348623157e308", "1.7976931348623158e308", "1.7976931348623159e308",
			"3.4028234e38", "3.4028235e38", "3.4028236e38", "3.40282357e38", "7.006492321624085e-46", "7.006492321624086e-46", "1.401298464324817e-45",
			"9007199254740993", "9007199254740992", "16777217", "1e23", "8.5e22", "1e-7", "1e-6", "1e21", "1e22", "0.1", "0.30000000000000004"}).Draw(t, "threshold")
		if isPlainInt(base) && rapid.Bool().Draw(t, "perturb") {
			v, _ := new(big.Int).SetString(base, 10)
			v.Add(v, big.NewInt(int64(rapid.IntRange(-50, 50).Draw(t, "delta"))))
			base = v.String()
		}
		if rapid.IntRange(0, 3).Draw(t, "neg") == 0 {
			base = "-" + base
		}
		return base
	}
}

// maxF64Tie = 2^1024 - 2^970, the exact tie between MaxFloat64 and overflow;
// maxF32Tie = 2^128 - 2^103 likewise for float32.
var maxF64Tie = new(big.Int).Sub(pow2(1024), pow2(970)).String()
var maxF32Tie = new(big.Int).Sub(pow2(128), pow2(103)).String()

func genLit(t *rapid.T) LitCase {
	if rapid.IntRange(0, 11).Draw(t, "garbageCase") == 0 {
		return LitCase{Lit: genGarbage(t), Esc: rapid.IntRange(0, 7).Draw(t, "esc") == 0}
	}
	return LitCase{Lit: genValidLit(t, true), Esc: rapid.IntRange(0, 7).Draw(t, "esc") == 0}
}

func genMant(t *rapid.T, bits int, label string) uint64 {
	max := uint64(1)<<bits - 1
	switch rapid.IntRange(0, 7).Draw(t, label+"Class") {
	case 0:
		return 0
	case 1:
		return 1
	case 2:
		return max
	case 3:
		return max - 1
	case 4:
		return uint64(1) << rapid.IntRange(0, bits-1).Draw(t, label+"Bit")
	case 5:
		return rapid.Uint64Range(0, 255).Draw(t, label+"Low")
	default:
		return rapid.Uint64Range(0, max).Draw(t, label)
	}
}

var anchors64 = []float64{1e-7, 1e-6, 1e-5, 1e20, 1e21, 1e22, 1e23, 1 << 53, 1 << 63, 1 << 64, 1 << 31, 1 << 32, math.MaxFloat64, 0x1p-1022, 5e-324,
	1, 0.1, 1e15, 1e16, 1e17, 123456789012345680, math.MaxFloat32, 0x1p-126, 0x1p-149, 1e-9, 1e-10, 1e-100, 1e100, 9007199254740993, 0.000001234, 100, 1e9}

var anchors32 = []float32{1e-7, 1e-6, 1e-5, 1e20, 1e21, 1e22, 1 << 24, 1 << 31, 1 << 32, 1 << 63, 1 << 64, math.MaxFloat32, 0x1p-126, 0x1p-149, 1, 0.1, 1e9, 1e10, 1e-9, 1e-10, 16777216, 3.4e38}

func genFloat(t *rapid.T) FloatCase {
	f32 := rapid.Bool().Draw(t, "f32")
	neg := rapid.Bool().Draw(t, "neg")
	cls := rapid.IntRange(0, 9).Draw(t, "floatClass")
	if f32 {
		var b uint32
		switch {
		case cls <= 3: // every exponent x mantissa patterns
			b = uint32(rapid.IntRange(0, 254).Draw(t, "exp"))<<23 | uint32(genMant(t, 23, "mant"))
		case cls <= 6: // neighbours of anchors
			a := math.Float32bits(rapid.SampledFrom(anchors32).Draw(t, "anchor"))
			b = uint32(int64(a) + int64(rapid.IntRange(-64, 64).Draw(t, "ulps")))
		case cls == 7: // short decimals
			d := rapid.IntRange(1, 9999).Draw(t, "d")
			e := rapid.IntRange(-45, 38).Draw(t, "e")
			v, _ := strconv.ParseFloat(fmt.Sprintf("%de%d", d, e), 32)
			b = math.Float32bits(float32(v))
		case cls == 8: // integers
			b = math.Float32bits(float32(rapid.Int64().Draw(t, "int")))
		default:
			b = rapid.Uint32().Draw(t, "bits")
		}
		b &^= 1 << 31
		if b >= 0x7f800000 {
			b = 0x7f7fffff
		}
		// 2^63 and 2^64 were excluded while finding F22 (knownFloatTokenBound) was open;
		// it is repaired in /repo (fix: c1d2c0c), so the two values are generated again.
		if neg {
			b |= 1 << 31
		}
		return FloatCase{Bits: uint64(b), F32: true}
	}
	var b uint64
	switch {
	case cls <= 3:
		b = uint64(rapid.IntRange(0, 2046).Draw(t, "exp"))<<52 | genMant(t, 52, "mant")
	case cls <= 6:
		a := math.Float64bits(rapid.SampledFrom(anchors64).Draw(t, "anchor"))
		b = uint64(int64(a) + int64(rapid.IntRange(-64, 64).Draw(t, "ulps")))
	case cls == 7:
		d := rapid.IntRange(1, 99999).Draw(t, "d")
		e := rapid.IntRange(-330, 308).Draw(t, "e")
		v, _ := strconv.ParseFloat(fmt.Sprintf("%de%d", d, e), 64)
		b = math.Float64bits(v)
	case cls == 8:
		switch rapid.IntRange(0, 2).Draw(t, "intClass") {
		case 0:
			b = math.Float64bits(float64(rapid.Int64().Draw(t, "int")))
		case 1:
			b = math.Float64bits(float64(rapid.Uint64().Draw(t, "uint")))
		default:
			k := rapid.SampledFrom(boundExps).Draw(t, "k")
			b = math.Float64bits(math.Ldexp(1, k) + float64(rapid.IntRange(-4, 4).Draw(t, "delta"))/2)
		}
	default:
		b = rapid.Uint64().Draw(t, "bits")
	}
	b &^= 1 << 63
	if b >= 0x7ff0000000000000 {
		b = 0x7fefffffffffffff
	}
	// 2^63 and 2^64 are generated again since finding F22 was repaired (fix: c1d2c0c).
	if neg {
		b |= 1 << 63
	}
	return FloatCase{Bits: b}
}

var intKindNames = []string{"int8", "int16", "int32", "int64", "int", "uint8", "uint16", "uint32", "uint64", "uint", "uintptr"}

func genInt(t *rapid.T) IntCase {
	k := kindByName[rapid.SampledFrom(intKindNames).Draw(t, "kind")]
	c := IntCase{Kind: k.Name}
	cls := rapid.IntRange(0, 6).Draw(t, "intClass")
	// integers above 2^53 that sit just above a float32 tie: float64 rounding
	// drops the low bits (double-rounding candidates for Float32 accessors)
	tieLike := func() uint64 {
		kk := rapid.IntRange(54, 62).Draw(t, "tieExp")
		return uint64(1)<<kk + uint64(rapid.IntRange(0, 3).Draw(t, "tieHi"))<<(kk-22) + uint64(1)<<(kk-24) + uint64(rapid.IntRange(0, 3).Draw(t, "tieLow"))
	}
	if k.Signed {
		switch {
		case cls == 6:
			c.I = int64(tieLike())
			if rapid.Bool().Draw(t, "neg") {
				c.I = -c.I
			}
		case cls <= 1: // near own bounds
			if rapid.Bool().Draw(t, "atMin") {
				c.I = k.Min.Int64() + int64(rapid.IntRange(0, 2000).Draw(t, "off"))
			} else {
				c.I = k.Max.Int64() - int64(rapid.IntRange(0, 2000).Draw(t, "off"))
			}
		case cls == 2:
			c.I = int64(rapid.IntRange(-2000, 2000).Draw(t, "small"))
		case cls == 3: // near a power of ten
			p := int64(1)
			for i := rapid.IntRange(0, 18).Draw(t, "p10"); i > 0; i-- {
				p *= 10
			}
			c.I = p + int64(rapid.IntRange(-3, 3).Draw(t, "delta"))
			if rapid.Bool().Draw(t, "neg") {
				c.I = -c.I
			}
		default:
			c.I = rapid.Int64().Draw(t, "any")
		}
		// keep the case canonical for the kind (SetInt would truncate silently)
		if k.Bits < 64 {
			lo, hi := k.Min.Int64(), k.Max.Int64()
			if c.I < lo || c.I > hi {
				c.I = lo + int64(uint64(c.I-lo)%uint64(hi-lo+1))
			}
		}
		return c
	}
	max := k.Max.Uint64()
	switch {
	case cls == 6:
		c.U = tieLike()
	case cls <= 1:
		off := uint64(rapid.IntRange(0, 2000).Draw(t, "off"))
		if off > max {
			off %= max + 1
		}
		c.U = max - off
	case cls == 2:
		c.U = uint64(rapid.IntRange(0, 2000).Draw(t, "small"))
	case cls == 3:
		p := uint64(1)
		for i := rapid.IntRange(0, 19).Draw(t, "p10"); i > 0; i-- {
			p *= 10
		}
		c.U = p + uint64(rapid.IntRange(-3, 3).Draw(t, "delta"))
	case cls == 4: // around 2^63 (signed/unsigned confusion)
		c.U = 1<<63 + uint64(int64(rapid.IntRange(-2000, 2000).Draw(t, "delta")))
	default:
		c.U = rapid.Uint64().Draw(t, "any")
	}
	if k.Bits < 64 {
		c.U &= max
	}
	return c
}

// ---------------------------------------------------------------------------
// enumerations

// enumIntLiterals yields every integer literal within +-2000 of +-2^k
// (k in 7,8,15,16,31,32,63,64) and of +-10^k (k in 18..21, i.e. all digit
// strings of length 19..22 next to a power of ten), plus fraction/exponent
// spellings of the values within +-2 of each centre.
func enumIntLiterals(e *rt.Env, yield func(LitCase) bool) {
	var centres []*big.Int
	for _, k := range boundExps {
		centres = append(centres, pow2(k), new(big.Int).Neg(pow2(k)))
	}
	for _, k := range []int64{18, 19, 20, 21} {
		p := new(big.Int).Exp(big.NewInt(10), big.NewInt(k), nil)
		centres = append(centres, p, new(big.Int).Neg(p))
	}
	var idx, total int64
	complete := true
	emit := func(c LitCase) bool {
		idx++
		if !e.Mine(idx) {
			return true
		}
		total++
		if !yield(c) {
			complete = false
			return false
		}
		return true
	}
outer:
	for _, c := range centres {
		for d := int64(-2000); d <= 2000; d++ {
			v := new(big.Int).Add(c, big.NewInt(d))
			s := v.String()
			if !emit(LitCase{Lit: s}) {
				break outer
			}
			if d >= -2 && d <= 2 {
				for _, sfx := range []string{".0", "e0", "E+0", "0e-1", ".5"} {
					if !emit(LitCase{Lit: s + sfx}) {
						break outer
					}
				}
				if !emit(LitCase{Lit: s, Esc: true}) {
					break outer
				}
			}
		}
	}
	e.Rec.AddPart(cov.Part{Name: "every integer literal within +-2000 of +-2^k (k=7,8,15,16,31,32,63,64) and of +-10^k (k=18..21; digit strings of length 19-22), each into 13 numeric kinds x 4 positions + raw-token accessors", Size: total, Complete: complete})
}

// enumOverflowTies yields the integers within +-60 of the float64 and float32
// overflow ties (2^1024-2^970 and 2^128-2^103), both signs.
func enumOverflowTies(e *rt.Env, yield func(LitCase) bool) {
	var idx, total int64
	complete := true
outer:
	for _, base := range []string{maxF64Tie, maxF32Tie} {
		c, _ := new(big.Int).SetString(base, 10)
		for _, sign := range []int64{1, -1} {
			for d := int64(-60); d <= 60; d++ {
				idx++
				if !e.Mine(idx) {
					continue
				}
				v := new(big.Int).Add(c, big.NewInt(d))
				v.Mul(v, big.NewInt(sign))
				total++
				if !yield(LitCase{Lit: v.String()}) {
					complete = false
					break outer
				}
			}
		}
	}
	e.Rec.AddPart(cov.Part{Name: "integers within +-60 of the float64/float32 overflow ties (2^1024-2^970, 2^128-2^103), both signs", Size: total, Complete: complete})
}

// enumFloatNeighbours yields all float64 within 64 ulp of the layout anchors
// and the float32 analogues.
func enumFloatNeighbours(e *rt.Env, yield func(FloatCase) bool) {
	var idx, total int64
	complete := true
	emit := func(c FloatCase) bool {
		idx++
		if !e.Mine(idx) {
			return true
		}
		total++
		if !yield(c) {
			complete = false
			return false
		}
		return true
	}
outer:
	for _, neg := range []bool{false, true} {
		for _, a := range layoutAnchors64 {
			ab := int64(math.Float64bits(a))
			for d := int64(-64); d <= 64; d++ {
				b := ab + d
				if b < 0 || b >= 0x7ff0000000000000 {
					continue
				}
				u := uint64(b)
				if neg {
					u |= 1 << 63
				}
				if !emit(FloatCase{Bits: u}) {
					break outer
				}
			}
		}
		for _, a := range []float32{1e-7, 1e-6, 1e21, 1e22, 1 << 24, math.MaxFloat32, 0x1p-126, 0x1p-149} {
			ab := int64(math.Float32bits(a))
			for d := int64(-64); d <= 64; d++ {
				b := ab + d
				if b < 0 || b >= 0x7f800000 {
					continue
				}
				u := uint64(b)
				if neg {
					u |= 1 << 31
				}
				if !emit(FloatCase{Bits: u, F32: true}) {
					break outer
				}
			}
		}
	}
	e.Rec.AddPart(cov.Part{Name: "all float64 within 64 ulp of 1e-7,1e-6,1e21,1e22,2^53,MaxFloat64,smallest normal,smallest subnormal and all float32 within 64 ulp of 1e-7,1e-6,1e21,1e22,2^24,MaxFloat32,smallest normal/subnormal; both signs", Size: total, Complete: complete})
}

// enumIntBounds yields, for every integer kind, all values within 2000 of its
// two bounds (all values for the 8-bit kinds).
func enumIntBounds(e *rt.Env, yield func(IntCase) bool) {
	var idx, total int64
	complete := true
	emit := func(c IntCase) bool {
		idx++
		if !e.Mine(idx) {
			return true
		}
		total++
		if !yield(c) {
			complete = false
			return false
		}
		return true
	}
outer:
	for _, name := range intKindNames {
		k := kindByName[name]
		span := int64(2000)
		if k.Bits == 8 {
			span = 255
		}
		for d := int64(0); d <= span; d++ {
			var lo, hi IntCase
			if k.Signed {
				lo = IntCase{Kind: name, I: k.Min.Int64() + d}
				hi = IntCase{Kind: name, I: k.Max.Int64() - d}
			} else {
				lo = IntCase{Kind: name, U: uint64(d)}
				hi = IntCase{Kind: name, U: k.Max.Uint64() - uint64(d)}
			}
			if !emit(lo) || !emit(hi) {
				break outer
			}
		}
	}
	e.Rec.AddPart(cov.Part{Name: "every value within 2000 of both bounds of int8..int64,int,uint8..uint64,uint,uintptr (all values of the 8-bit kinds), marshalled in 4 positions + constructed-token accessors", Size: total, Complete: complete})
}

// Package c03 decides property C03: unmarshaling a valid JSON text into an
// untyped target (any, map[string]any, []any, a named empty interface) yields
// exactly the meaning of the text, whichever route (Unmarshal, UnmarshalRead,
// UnmarshalDecode) and whichever internal code path (specialised untyped
// decoder or the generic reflection machinery) is taken.
package c03

import (
	"bytes"
	stdjson "encoding/json"
	"errors"
	"fmt"
	"math"
	"math/big"
	"runtime"
	"strings"
	"sync"

	"github.com/go-json-experiment/json"
	"github.com/go-json-experiment/json/jsontext"
	jsonv1 "github.com/go-json-experiment/json/v1"

	"verif/harness/cov"
	"verif/harness/ref"
	"verif/harness/rt"
)

var rec = cov.New()

// oracleFail is set by TestCheck to e.OracleFail: a disagreement inside the
// harness itself (generator produced an invalid text, expected-tree builder
// disagrees with std encoding/json) makes the run inconclusive, never a violation.
var oracleFail = func(msg string) { panic("oracle self-test: " + msg) }

// NamedEmptyIface is a named interface type with an empty method set.
type NamedEmptyIface interface{}

// Case is one or more valid JSON texts plus a read schedule.
//
// Every text is pushed on its own through Unmarshal and UnmarshalRead, and all
// texts in order through UnmarshalDecode on ONE jsontext.Decoder (so that the
// decoder's string intern cache is carried from one document to the next).
type Case struct {
	Docs      [][]byte `json:"docs"`
	Chunks    []int    `json:"chunks"`      // read schedule, cycled; 0 = an empty read
	Wrap      bool     `json:"wrap"`        // UnmarshalDecode route: texts are the elements of one enclosing array
	OptAtCall bool     `json:"opt_at_call"` // UnmarshalDecode route: options passed to the call instead of NewDecoder
}

// ---------------------------------------------------------------------------
// expected tree

type xnode struct {
	kind  byte // n f t " 0 [ {
	s     string
	f     float64
	over  bool
	elems []*xnode
	names []string // for '{': names[i] belongs to elems[i]
}

func (x *xnode) overflow() bool {
	if x.over {
		return true
	}
	for _, e := range x.elems {
		if e.overflow() {
			return true
		}
	}
	return false
}

type docInfo struct {
	escape, surrogate, nonInt, longNum, halfway, nearHalf, overflow, wide, subnormal bool
	depth                                                                            int
	strs                                                                             []string // decoded strings in document order
}

func build(in []byte, n *ref.Node, depth int, di *docInfo) *xnode {
	x := &xnode{kind: byte(n.Kind)}
	switch n.Kind {
	case '"':
		x.s = n.Str
		noteString(in[n.Start:n.End], n.Str, di)
	case '0':
		lit := string(in[n.Start:n.End])
		x.f, x.over = ref.RoundFloat(lit, 64)
		noteNumber(lit, x.f, x.over, di)
	case '[':
		if depth+1 > di.depth {
			di.depth = depth + 1
		}
		x.elems = make([]*xnode, len(n.Elems))
		for i, e := range n.Elems {
			x.elems[i] = build(in, e, depth+1, di)
		}
	case '{':
		if depth+1 > di.depth {
			di.depth = depth + 1
		}
		if len(n.Members) >= 60 {
			di.wide = true
		}
		x.elems = make([]*xnode, len(n.Members))
		x.names = make([]string, len(n.Members))
		for i, m := range n.Members {
			x.names[i] = m.Name.Str
			noteString(in[m.Name.Start:m.Name.End], m.Name.Str, di)
			x.elems[i] = build(in, m.Value, depth+1, di)
		}
	}
	return x
}

func noteString(lit []byte, dec string, di *docInfo) {
	if i := bytes.IndexByte(lit, '\\'); i >= 0 {
		di.escape = true
		if !di.surrogate {
			for j := i; j+5 < len(lit); j++ {
				if lit[j] == '\\' && lit[j+1] == 'u' && (lit[j+2] == 'd' || lit[j+2] == 'D') && lit[j+3] >= '8' {
					// preceded by an even number of backslashes?
					k := j
					for k > 0 && lit[k-1] == '\\' {
						k--
					}
					if (j-k)%2 == 0 {
						di.surrogate = true
						break
					}
				}
			}
		}
	}
	di.strs = append(di.strs, dec)
}

func noteNumber(lit string, f float64, over bool, di *docInfo) {
	if over {
		di.overflow = true
		return
	}
	if strings.ContainsAny(lit, ".eE") {
		di.nonInt = true
	}
	digits := 0
	for i := 0; i < len(lit); i++ {
		if lit[i] == 'e' || lit[i] == 'E' {
			break
		}
		if lit[i] >= '0' && lit[i] <= '9' {
			digits++
		}
	}
	if digits > 15 {
		di.longNum = true
	}
	if f != 0 && math.Abs(f) < 2.2250738585072014e-308 {
		di.subnormal = true
	}
	if digits >= 16 && digits <= 1200 && (!di.halfway || !di.nearHalf) {
		switch tieClass(lit, f) {
		case 2:
			di.halfway = true
		case 1:
			di.nearHalf = true
		}
	}
}

// tieClass reports 2 if the literal lies exactly halfway between two adjacent
// float64 values, 1 if it lies within 1e-6 of the gap from such a midpoint.
func tieClass(lit string, f float64) int {
	r := ref.RatOf(lit)
	if r == nil || math.IsInf(f, 0) {
		return 0
	}
	fr := new(big.Rat).SetFloat64(f)
	if fr == nil {
		return 0
	}
	d := new(big.Rat).Sub(r, fr)
	if d.Sign() == 0 {
		return 0
	}
	var nb float64
	if d.Sign() > 0 {
		nb = math.Nextafter(f, math.Inf(1))
	} else {
		nb = math.Nextafter(f, math.Inf(-1))
	}
	var gap *big.Rat
	if math.IsInf(nb, 0) {
		// gap above MaxFloat64 is 2^971
		gap = new(big.Rat).SetInt(new(big.Int).Lsh(big.NewInt(1), 971))
	} else {
		gap = new(big.Rat).Sub(new(big.Rat).SetFloat64(nb), fr)
	}
	gap.Abs(gap)
	d.Abs(d)
	// x = gap/2 - d  (>= 0 because f is the nearest)
	x := new(big.Rat).Sub(new(big.Rat).Quo(gap, big.NewRat(2, 1)), d)
	if x.Sign() == 0 {
		return 2
	}
	if x.Sign() > 0 && x.Cmp(new(big.Rat).Quo(gap, big.NewRat(1000000, 1))) < 0 {
		return 1
	}
	return 0
}

// compare checks that got is exactly the Go tree for x.
func compare(got any, x *xnode, path string) error {
	switch x.kind {
	case 'n':
		if got != nil {
			return fmt.Errorf("at %q: got %T(%v), want nil interface", path, got, trunc(got))
		}
	case 'f', 't':
		b, ok := got.(bool)
		if !ok || b != (x.kind == 't') {
			return fmt.Errorf("at %q: got %T(%v), want bool %v", path, got, trunc(got), x.kind == 't')
		}
	case '"':
		s, ok := got.(string)
		if !ok {
			return fmt.Errorf("at %q: got %T(%v), want string %q", path, got, trunc(got), truncs(x.s))
		}
		if s != x.s {
			return fmt.Errorf("at %q: got string %q (len %d), want %q (len %d)%s", path, truncs(s), len(s), truncs(x.s), len(x.s), firstDiff(s, x.s))
		}
	case '0':
		f, ok := got.(float64)
		if !ok {
			return fmt.Errorf("at %q: got %T(%v), want float64 %v", path, got, trunc(got), x.f)
		}
		if math.Float64bits(f) != math.Float64bits(x.f) {
			return fmt.Errorf("at %q: got float64 %v (bits %016x), want %v (bits %016x)", path, f, math.Float64bits(f), x.f, math.Float64bits(x.f))
		}
	case '[':
		a, ok := got.([]any)
		if !ok {
			return fmt.Errorf("at %q: got %T, want []any of length %d", path, got, len(x.elems))
		}
		if len(a) != len(x.elems) {
			return fmt.Errorf("at %q: got []any of length %d, want length %d", path, len(a), len(x.elems))
		}
		for i, e := range x.elems {
			if err := compare(a[i], e, fmt.Sprintf("%s/%d", path, i)); err != nil {
				return err
			}
		}
	case '{':
		m, ok := got.(map[string]any)
		if !ok {
			return fmt.Errorf("at %q: got %T, want map[string]any with %d members", path, got, len(x.elems))
		}
		for i, e := range x.elems {
			v, present := m[x.names[i]]
			if !present {
				return fmt.Errorf("at %q: member %q (len %d) is missing from the map (map has %d entries, want %d); map keys near it: %s", path, truncs(x.names[i]), len(x.names[i]), len(m), len(x.elems), keysLike(m, x.names[i]))
			}
			if err := compare(v, e, path+"/"+truncs(x.names[i])); err != nil {
				return err
			}
		}
		if len(m) != len(x.elems) {
			return fmt.Errorf("at %q: map has %d entries, want exactly the %d members of the text", path, len(m), len(x.elems))
		}
	}
	return nil
}

func keysLike(m map[string]any, name string) string {
	// deterministic: report keys of the same length (sorted), at most 3
	var ks []string
	for k := range m {
		if len(k) == len(name) {
			ks = append(ks, k)
		}
	}
	sortStrings(ks)
	if len(ks) > 3 {
		ks = ks[:3]
	}
	for i := range ks {
		ks[i] = fmt.Sprintf("%q", truncs(ks[i]))
	}
	return "[" + strings.Join(ks, " ") + "]"
}

func sortStrings(a []string) {
	for i := 1; i < len(a); i++ {
		for j := i; j > 0 && a[j] < a[j-1]; j-- {
			a[j], a[j-1] = a[j-1], a[j]
		}
	}
}

func firstDiff(a, b string) string {
	n := min(len(a), len(b))
	for i := 0; i < n; i++ {
		if a[i] != b[i] {
			return fmt.Sprintf(" (first difference at byte %d: %#x vs %#x)", i, a[i], b[i])
		}
	}
	return fmt.Sprintf(" (one is a prefix of the other, common length %d)", n)
}

func truncs(s string) string {
	if len(s) > 80 {
		return s[:40] + "..." + s[len(s)-30:]
	}
	return s
}

func trunc(v any) string { return truncs(fmt.Sprintf("%v", v)) }

func truncb(b []byte) string {
	if len(b) > 300 {
		return fmt.Sprintf("%s...(%d bytes)...%s", b[:150], len(b), b[len(b)-100:])
	}
	return string(b)
}

// ---------------------------------------------------------------------------
// option sets

const (
	optDefault = iota
	optAllowDup
	optNoopAny
	optNoopString
	optLegacyErrors
	nOpts
)

var optNames = [nOpts]string{"default", "AllowDuplicateNames(true)", "WithUnmarshalers(skip *any)", "WithUnmarshalers(skip *string)", "ReportErrorsWithLegacySemantics(true)"}

// The skipping functions return errors.ErrUnsupported without touching the
// decoder: by the documentation of UnmarshalFromFunc unmarshaling then moves
// on to the next rule, so the option is a no-op for the result.
var optSets = [nOpts][]json.Options{
	optDefault:    nil,
	optAllowDup:   {jsontext.AllowDuplicateNames(true)},
	optNoopAny:    {json.WithUnmarshalers(json.UnmarshalFromFunc(func(*jsontext.Decoder, *any) error { return errors.ErrUnsupported }))},
	optNoopString: {json.WithUnmarshalers(json.UnmarshalFromFunc(func(*jsontext.Decoder, *string) error { return errors.ErrUnsupported }))},
	// validates each value ahead of decoding it (a second pass over the same bytes): no effect on valid texts
	optLegacyErrors: {jsonv1.ReportErrorsWithLegacySemantics(true)},
}

// ---------------------------------------------------------------------------
// targets

const (
	tgtAny = iota
	tgtNamed
	tgtMap
	tgtSlice
	nTgts
)

var tgtNames = [nTgts]string{"*any", "*NamedEmptyIface", "*map[string]any", "*[]any"}

func applicable(tgt int, x *xnode) bool {
	switch tgt {
	case tgtMap:
		return x.kind == '{' || x.kind == 'n'
	case tgtSlice:
		return x.kind == '[' || x.kind == 'n'
	}
	return true
}

// decodeInto runs f with a fresh target of the given kind and checks the result.
func decodeInto(tgt int, x *xnode, f func(out any) error) error {
	var err error
	var got any
	var nilOK = true
	var p *rt.PanicErr
	switch tgt {
	case tgtAny:
		var v any
		p = rt.Guard(func() { err = f(&v) })
		got = v
	case tgtNamed:
		var v NamedEmptyIface
		p = rt.Guard(func() { err = f(&v) })
		got = v
	case tgtMap:
		var v map[string]any
		p = rt.Guard(func() { err = f(&v) })
		if x.kind == 'n' {
			nilOK = v == nil
		} else {
			got = v
		}
	case tgtSlice:
		var v []any
		p = rt.Guard(func() { err = f(&v) })
		if x.kind == 'n' {
			nilOK = v == nil
		} else {
			got = v
		}
	}
	if p != nil {
		return fmt.Errorf("library panicked: %v", p)
	}
	if x.overflow() {
		if err == nil {
			return errors.New("returned nil error although a number literal overflows float64")
		}
		return nil
	}
	if err != nil {
		return fmt.Errorf("returned error %v for a valid text", err)
	}
	if !nilOK {
		return errors.New("JSON null did not leave the zero (nil) value in the target")
	}
	return compare(got, x, "")
}

// ---------------------------------------------------------------------------
// Run

type parsed struct {
	in []byte
	x  *xnode
}

// historyDependent collects failures that were seen once but did not show
// again when the same case was re-run from clean decoder pools (see Run).
var historyDependent struct {
	sync.Mutex
	n     int
	first string
}

// Run decides one case.
//
// The library keeps decoders (with their string intern cache) in sync.Pools
// between calls, so a wrong result may depend on what earlier cases left
// there. To keep the verdict on a case a function of the case alone (and the
// saved replay file reproducible), a failure is confirmed by emptying the
// pools (two garbage collections) and running the case again; only a failure
// that shows again is reported for this case. A failure that does not show
// again is counted and turns the whole run inconclusive (TestCheck); cases
// with several texts exercise pooled state explicitly (text k is decoded by
// Unmarshal right after text k-1).
func Run(c Case) error {
	rec.Eval()
	err := runCase(c, true)
	if err == nil {
		return nil
	}
	runtime.GC()
	runtime.GC()
	if err2 := runCase(c, false); err2 != nil {
		return err2
	}
	rec.Class("failure-not-reproducible-from-clean-pools")
	historyDependent.Lock()
	historyDependent.n++
	if historyDependent.first == "" {
		historyDependent.first = err.Error()
	}
	historyDependent.Unlock()
	return nil
}

func runCase(c Case, record bool) error {
	if len(c.Docs) == 0 {
		return nil
	}
	docs := make([]parsed, len(c.Docs))
	var di docInfo
	for i, in := range c.Docs {
		node, perr := ref.Parse(in, ref.Opt{})
		if perr != nil {
			oracleFail(fmt.Sprintf("generator produced a text the reference rejects (%v): %q", perr, truncb(in)))
			return nil
		}
		docs[i] = parsed{in, build(in, node, 0, &di)}
	}
	if record {
		recordCase(c, docs, &di)
	}

	// oracle self-test: std encoding/json agrees with the expected tree where
	// the specifications coincide (valid UTF-8, no duplicate names).
	for i, d := range docs {
		var v any
		err := stdjson.Unmarshal(d.in, &v)
		if d.x.overflow() {
			if err == nil {
				oracleFail(fmt.Sprintf("std encoding/json accepted a text the oracle says overflows: %q", truncb(d.in)))
			}
			continue
		}
		if err != nil {
			oracleFail(fmt.Sprintf("std encoding/json rejects doc %d (%v): %q", i, err, truncb(d.in)))
			continue
		}
		if cerr := compare(v, d.x, ""); cerr != nil {
			oracleFail(fmt.Sprintf("expected tree disagrees with std encoding/json on %q: %v", truncb(d.in), cerr))
		}
	}

	// Routes 1 and 2: each text on its own.
	for i, d := range docs {
		for tgt := 0; tgt < nTgts; tgt++ {
			if !applicable(tgt, d.x) {
				continue
			}
			for o := 0; o < nOpts; o++ {
				if err := decodeInto(tgt, d.x, func(out any) error { return json.Unmarshal(d.in, out, optSets[o]...) }); err != nil {
					return fmt.Errorf("json.Unmarshal into %s with options %s: %v; text #%d %q", tgtNames[tgt], optNames[o], err, i, truncb(d.in))
				}
				if err := decodeInto(tgt, d.x, func(out any) error {
					return json.UnmarshalRead(newChunkReader(d.in, c.Chunks), out, optSets[o]...)
				}); err != nil {
					return fmt.Errorf("json.UnmarshalRead (chunks %v) into %s with options %s: %v; text #%d %q", c.Chunks, tgtNames[tgt], optNames[o], err, i, truncb(d.in))
				}
			}
		}
	}

	// Route 3: all texts through UnmarshalDecode on one Decoder.
	var stream []byte
	if c.Wrap {
		stream = append(stream, '[')
	}
	for i, d := range docs {
		if i > 0 {
			if c.Wrap {
				stream = append(stream, ',')
			} else {
				stream = append(stream, '\n')
			}
		}
		stream = append(stream, d.in...)
	}
	if c.Wrap {
		stream = append(stream, ']')
	}
	for src := 0; src < 2; src++ {
		for mode := 0; mode < 3; mode++ {
			if mode == 2 {
				// typed targets where the text allows it; skip the pass if none does
				some := false
				for _, d := range docs {
					if applicable(tgtMap, d.x) || applicable(tgtSlice, d.x) {
						some = true
					}
				}
				if !some {
					continue
				}
			}
			for o := 0; o < nOpts; o++ {
				var decOpts, callOpts []json.Options
				if c.OptAtCall {
					callOpts = optSets[o]
				} else {
					decOpts = optSets[o]
				}
				var dec *jsontext.Decoder
				srcName := "bytes.Buffer"
				if src == 0 {
					dec = jsontext.NewDecoder(bytes.NewBuffer(append([]byte(nil), stream...)), decOpts...)
				} else {
					srcName = fmt.Sprintf("chunked reader %v", c.Chunks)
					dec = jsontext.NewDecoder(newChunkReader(stream, c.Chunks), decOpts...)
				}
				where := func(i, tgt int) string {
					return fmt.Sprintf("json.UnmarshalDecode (Decoder over %s, wrap=%v, options %s given %s) into %s, text #%d of %d", srcName, c.Wrap, optNames[o], map[bool]string{true: "to the call", false: "to NewDecoder"}[c.OptAtCall], tgtNames[tgt], i, len(docs))
				}
				if c.Wrap {
					var tok jsontext.Token
					var err error
					if p := rt.Guard(func() { tok, err = dec.ReadToken() }); p != nil || err != nil || tok.Kind() != '[' {
						return fmt.Errorf("ReadToken of the enclosing '[' failed: %v %v", p, err)
					}
				}
				stop := false
				for i, d := range docs {
					tgt := tgtAny
					switch mode {
					case 1:
						tgt = tgtNamed
					case 2:
						// alternate so that null meets both typed targets
						if applicable(tgtMap, d.x) && (d.x.kind != 'n' || i%2 == 0) {
							tgt = tgtMap
						} else if applicable(tgtSlice, d.x) {
							tgt = tgtSlice
						}
					}
					if err := decodeInto(tgt, d.x, func(out any) error { return json.UnmarshalDecode(dec, out, callOpts...) }); err != nil {
						return fmt.Errorf("%s: %v; text %q; stream %q", where(i, tgt), err, truncb(d.in), truncb(stream))
					}
					if d.x.overflow() {
						// the state of the decoder after a semantic error is not part of this property
						stop = true
						break
					}
				}
				if stop {
					continue
				}
				if c.Wrap {
					var tok jsontext.Token
					var err error
					if p := rt.Guard(func() { tok, err = dec.ReadToken() }); p != nil || err != nil || tok.Kind() != ']' {
						return fmt.Errorf("%s: after the last element ReadToken gives kind %q err %v panic %v, want ']'", where(len(docs)-1, 0), tok.Kind(), err, p)
					}
				}
			}
		}
	}
	return nil
}

// recordCase feeds the evidence recorder.
func recordCase(c Case, docs []parsed, di *docInfo) {
	fp := cov.FP(c.Docs...)
	nt := di.escape || di.nonInt || di.longNum || di.depth >= 2
	if nt {
		rec.NonTrivial(fp)
	} else {
		rec.Class("trivial")
	}
	cls := []string{}
	add := func(on bool, name string) {
		if on {
			rec.Class(name)
			cls = append(cls, name)
		}
	}
	add(di.escape, "escape")
	add(di.surrogate, "surrogate-pair")
	add(di.nonInt, "non-integer-number")
	add(di.longNum, "number>15-digits")
	add(di.halfway, "halfway-number")
	add(di.nearHalf, "near-halfway-number")
	add(di.subnormal, "subnormal-number")
	add(di.overflow, "overflow")
	add(di.wide, "wide-object")
	add(di.depth >= 2, "nesting>=2")
	add(di.depth >= 50, "deep")
	add(len(docs) > 1, "multi-document")
	add(c.Wrap, "decode-inside-array")
	ev, evSameLen, hits := simulateCache(di.strs)
	add(ev > 0, "cache-collision")
	add(evSameLen > 0, "cache-collision-same-length")
	add(hits > 0, "cache-hit")
	long := false
	for _, s := range di.strs {
		if len(s) > 256 {
			long = true
		}
	}
	add(long, "string>256-bytes")
	if nt {
		rec.Sample(fp, func() any {
			texts := make([]string, len(c.Docs))
			for i, d := range c.Docs {
				texts[i] = truncb(d)
			}
			return map[string]any{"texts": texts, "chunks": c.Chunks, "wrap": c.Wrap, "opt_at_call": c.OptAtCall, "classes": cls}
		})
	}
}

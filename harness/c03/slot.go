package c03

import (
	"encoding/binary"
	"math/bits"
)

// slotOf replicates the slot function of the library's 256-entry string
// intern cache (intern.go). It is used ONLY to steer the generator towards
// strings that land in the same slot and to label cases in the evidence
// (class "cache-collision"); no verdict depends on it.
func slotOf(b string) int {
	if len(b) < 2 || len(b) > 256 {
		return -1
	}
	var h uint32
	switch {
	case len(b) >= 8:
		lo := binary.LittleEndian.Uint64([]byte(b[:8]))
		hi := binary.LittleEndian.Uint64([]byte(b[len(b)-8:]))
		h = hash64(uint32(lo), uint32(lo>>32)) ^ hash64(uint32(hi), uint32(hi>>32))
	case len(b) >= 4:
		lo := binary.LittleEndian.Uint32([]byte(b[:4]))
		hi := binary.LittleEndian.Uint32([]byte(b[len(b)-4:]))
		h = hash64(lo, hi)
	default:
		lo := binary.LittleEndian.Uint16([]byte(b[:2]))
		hi := binary.LittleEndian.Uint16([]byte(b[len(b)-2:]))
		h = hash64(uint32(lo), uint32(hi))
	}
	return int(h % 256)
}

func hash64(lo, hi uint32) uint32 {
	const (
		prime3 = 0xc2b2ae3d
		prime4 = 0x27d4eb2f
		prime5 = 0x165667b1
	)
	h := prime5 + uint32(8)
	h += lo * prime3
	h = bits.RotateLeft32(h, 17) * prime4
	h += hi * prime3
	h = bits.RotateLeft32(h, 17) * prime4
	return h
}

// simulateCache replays the strings of a case (document order) through a
// model of the cache and counts evictions (two different strings meeting in
// one slot), evictions between strings of equal length, and hits.
func simulateCache(strs []string) (evictions, sameLen, hits int) {
	var cache [256]string
	for _, s := range strs {
		i := slotOf(s)
		if i < 0 {
			continue
		}
		switch old := cache[i]; {
		case old == s:
			hits++
		case old != "":
			evictions++
			if len(old) == len(s) {
				sameLen++
			}
		}
		cache[i] = s
	}
	return
}

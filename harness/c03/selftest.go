package c03

import (
	"fmt"
	"io"
	"math"
	"strconv"

	"verif/harness/ref"
	"verif/harness/rt"
)

// selfTest checks the pieces of the harness the verdicts rest on: the
// reference rounding against strconv (trusted) on the boundary literals, the
// comparer's ability to tell near-equal trees apart, and the chunk reader.
func selfTest(e *rt.Env) {
	for _, lit := range limitLits {
		f, over := ref.RoundFloat(lit, 64)
		g, err := strconv.ParseFloat(lit, 64)
		if over != (err != nil) || (!over && math.Float64bits(f) != math.Float64bits(g)) {
			e.OracleFail(fmt.Sprintf("self-test: ref.RoundFloat(%q)=(%v,%v) but strconv gives (%v,%v)", lit, f, over, g, err))
		}
		if _, perr := ref.Parse([]byte(lit), ref.Opt{}); perr != nil {
			e.OracleFail(fmt.Sprintf("self-test: limit literal %q is not a valid JSON text: %v", lit, perr))
		}
	}
	if _, over := ref.RoundFloat("1.797693134862315807e308", 64); over {
		e.OracleFail("self-test: 1.797693134862315807e308 must round to MaxFloat64")
	}
	if _, over := ref.RoundFloat("1.797693134862315808e308", 64); !over {
		e.OracleFail("self-test: 1.797693134862315808e308 must overflow")
	}
	if tieClass("9007199254740993", 9007199254740992) != 2 || tieClass("9007199254740993.0000001", 9007199254740994) != 1 || tieClass("0.3", 0.3) != 0 {
		e.OracleFail("self-test: tieClass misjudges 2^53+1")
	}
	// comparer
	mk := func(s string) *xnode {
		n, perr := ref.Parse([]byte(s), ref.Opt{})
		if perr != nil {
			e.OracleFail("self-test: " + perr.Error())
			return &xnode{kind: 'n'}
		}
		var di docInfo
		return build([]byte(s), n, 0, &di)
	}
	x := mk(`{"a":[1,-0,"s",null,true,{}],"b":{}}`)
	good := map[string]any{"a": []any{1.0, math.Copysign(0, -1), "s", nil, true, map[string]any{}}, "b": map[string]any{}}
	if err := compare(good, x, ""); err != nil {
		e.OracleFail("self-test: comparer rejects the right tree: " + err.Error())
	}
	bad := []any{
		map[string]any{"a": []any{1.0, 0.0, "s", nil, true, map[string]any{}}, "b": map[string]any{}},                                   // +0 for -0
		map[string]any{"a": []any{1.0, math.Copysign(0, -1), "s", nil, true, map[string]any{}}},                                         // missing member
		map[string]any{"a": []any{1.0, math.Copysign(0, -1), "s", nil, true, map[string]any{}}, "b": map[string]any{}, "c": nil},        // extra member
		map[string]any{"a": []any{1.0, math.Copysign(0, -1), "s", nil, true}, "b": map[string]any{}},                                    // short array
		map[string]any{"a": []any{1.0, math.Copysign(0, -1), "s", false, true, map[string]any{}}, "b": map[string]any{}},                // false for null
		map[string]any{"a": []any{1.0, math.Copysign(0, -1), "S", nil, true, map[string]any{}}, "b": map[string]any{}},                  // other string
		map[string]any{"a": []any{float32(1.0), math.Copysign(0, -1), "s", nil, true, map[string]any{}}, "b": map[string]any{}},         // wrong type
		map[string]any{"a": []any{1.0, math.Copysign(0, -1), "s", nil, true, map[string]any{}}, "b": []any{}},                           // array for object
		map[string]any{"a": []any{math.Nextafter(1, 2), math.Copysign(0, -1), "s", nil, true, map[string]any{}}, "b": map[string]any{}}, // 1 ulp
		map[string]any{"a": []any{1.0, math.Copysign(0, -1), "s", (*int)(nil), true, map[string]any{}}, "b": map[string]any{}},          // typed nil
	}
	for i, b := range bad {
		if compare(b, x, "") == nil {
			e.OracleFail(fmt.Sprintf("self-test: comparer accepts wrong tree #%d", i))
		}
	}
	if !mk("[1e309]").overflow() || mk("[1e308]").overflow() {
		e.OracleFail("self-test: overflow detection")
	}
	// chunk reader
	data := []byte("0123456789abcdefghij")
	for _, sched := range [][]int{{1}, {0, 0, 3}, {100}, {0}, nil, {2, 0, 5, 1}} {
		got, err := io.ReadAll(newChunkReader(data, sched))
		if err != nil || string(got) != string(data) {
			e.OracleFail(fmt.Sprintf("self-test: chunk reader with %v gives %q, %v", sched, got, err))
		}
	}
	// slot replica sanity: strings sharing first/last 8 bytes fall in one slot
	if slotOf("abcdefghXYZ12345678") != slotOf("abcdefgh-----------12345678") || slotOf("aa") != slotOf("aaa") || slotOf("abab") != slotOf("ababab") {
		e.OracleFail("self-test: slot replica")
	}
}

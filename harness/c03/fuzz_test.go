package c03

import (
	"testing"

	"verif/harness/rt"
)

// FuzzDocs lets the native fuzzer drive the "docs" generator (coverage-guided).
func FuzzDocs(f *testing.F) {
	rt.FuzzRapid(f, "C03", "docs", genShared, Run)
}

package c03

import (
	"fmt"
	"math"
	"math/big"
	"strconv"
	"strings"
	"unicode/utf8"

	"pgregory.net/rapid"

	"verif/harness/gen"
)

const bs = "\\"

// ---------------------------------------------------------------------------
// text builder with optional insignificant whitespace

type bld struct {
	sb strings.Builder
	t  *rapid.T
	ws bool
}

func newBld(t *rapid.T) *bld {
	return &bld{t: t, ws: rapid.IntRange(0, 3).Draw(t, "ws-on") == 0}
}

func (b *bld) sp() {
	if b.ws && rapid.IntRange(0, 4).Draw(b.t, "ws?") == 0 {
		b.sb.WriteString(rapid.SampledFrom([]string{" ", "\n", "\t", "\r", "  ", "\r\n\t "}).Draw(b.t, "ws"))
	}
}

func (b *bld) w(s string) { b.sb.WriteString(s) }

func (b *bld) str(decoded string) {
	b.sb.WriteByte('"')
	b.sb.WriteString(spell(b.t, decoded))
	b.sb.WriteByte('"')
}

func (b *bld) bytes() []byte { return []byte(b.sb.String()) }

// ---------------------------------------------------------------------------
// strings: drawn as decoded text, then spelled with random escaping

var specialRunes = []rune{'"', '\\', '/', 0, 0x1f, 0x7f, 0x80, 0x7ff, 0x800, 0xd7ff, 0xe000, 0xfffd, 0xfffe, 0xffff,
	0x2028, 0x2029, 0x10000, 0x10ffff, 0x1f600, 0x1d11e, '<', '>', '&', '\b', '\f', '\n', '\r', '\t', 'u', 'U', ' '}

func genRune(t *rapid.T) rune {
	switch rapid.IntRange(0, 11).Draw(t, "rclass") {
	case 0, 1, 2:
		return rune(rapid.IntRange(0x20, 0x7e).Draw(t, "ascii"))
	case 3:
		return rune(rapid.IntRange(0, 0x1f).Draw(t, "ctl"))
	case 4, 5:
		return rapid.SampledFrom(specialRunes).Draw(t, "special")
	case 6:
		return rune(rapid.IntRange(0x80, 0x7ff).Draw(t, "r2"))
	case 7:
		r := rune(rapid.IntRange(0x800, 0xffff).Draw(t, "r3"))
		if r >= 0xd800 && r <= 0xdfff {
			r += 0x800
		}
		return r
	case 8:
		return rune(rapid.IntRange(0x10000, 0x10ffff).Draw(t, "r4"))
	default:
		return rune('a' + rapid.IntRange(0, 4).Draw(t, "letter"))
	}
}

func genDecoded(t *rapid.T) string {
	if rapid.IntRange(0, 24).Draw(t, "long") == 0 {
		n := rapid.SampledFrom([]int{15, 16, 17, 31, 32, 33, 63, 64, 65, 127, 128, 129, 254, 255, 256, 257, 300, 1000, 4095, 4096, 4097, 5000}).Draw(t, "longlen")
		unit := rapid.SampledFrom([]string{"a", "ab", "xyz", string(rune(0xe9)), string(rune(0x20ac)), string(rune(0x1f600)), "\n", "\""}).Draw(t, "unit")
		s := strings.Repeat(unit, n/len(unit)+1)[:n]
		for !utf8.ValidString(s) {
			s = s[:len(s)-1]
		}
		// plant a few odd runes
		k := rapid.IntRange(0, 3).Draw(t, "plants")
		rs := []rune(s)
		for i := 0; i < k && len(rs) > 0; i++ {
			rs[rapid.IntRange(0, len(rs)-1).Draw(t, "plantpos")] = genRune(t)
		}
		return string(rs)
	}
	n := rapid.IntRange(0, 8).Draw(t, "nrunes")
	rs := make([]rune, n)
	for i := range rs {
		rs[i] = genRune(t)
	}
	return string(rs)
}

func hex4(t *rapid.T, v int, style int) string {
	s := fmt.Sprintf("%04x", v)
	switch style {
	case 1:
		return strings.ToUpper(s)
	case 2:
		b := []byte(s)
		for i := range b {
			if b[i] >= 'a' && rapid.Bool().Draw(t, "up") {
				b[i] -= 'a' - 'A'
			}
		}
		return string(b)
	}
	return s
}

func uEsc(t *rapid.T, r rune, style int) string {
	if r > 0xffff {
		r -= 0x10000
		hi, lo := 0xd800+int(r>>10), 0xdc00+int(r&0x3ff)
		return bs + "u" + hex4(t, hi, style) + bs + "u" + hex4(t, lo, style)
	}
	return bs + "u" + hex4(t, int(r), style)
}

var shortEsc = map[rune]string{'"': bs + `"`, '\\': bs + bs, '/': bs + "/", '\b': bs + "b", '\f': bs + "f", '\n': bs + "n", '\r': bs + "r", '\t': bs + "t"}

// spell returns a JSON string body whose RFC 8259 unescaping is s.
func spell(t *rapid.T, s string) string {
	mode := rapid.IntRange(0, 5).Draw(t, "spell") // 0,1,2 minimal; 3 sprinkle; 4 all \u; 5 sprinkle heavy
	style := rapid.IntRange(0, 2).Draw(t, "hexstyle")
	nr := utf8.RuneCountInString(s)
	var sb strings.Builder
	var plant map[int]bool
	if nr > 64 && mode >= 3 {
		// long strings: escape only a few drawn positions (keeps the number of draws small)
		plant = map[int]bool{}
		for i := rapid.IntRange(1, 4).Draw(t, "nplant"); i > 0; i-- {
			plant[rapid.IntRange(0, nr-1).Draw(t, "escpos")] = true
		}
	}
	i := 0
	for _, r := range s {
		must := r < 0x20 || r == '"' || r == '\\'
		esc := must
		if !esc {
			switch {
			case plant != nil:
				esc = plant[i]
			case mode == 3:
				esc = rapid.IntRange(0, 5).Draw(t, "esc?") == 0
			case mode == 4:
				esc = true
			case mode == 5:
				esc = rapid.Bool().Draw(t, "esc?")
			}
		}
		i++
		if !esc {
			sb.WriteRune(r)
			continue
		}
		if se, ok := shortEsc[r]; ok && (mode != 4 || must) && (nr > 64 || rapid.IntRange(0, 3).Draw(t, "short") != 0) {
			sb.WriteString(se)
			continue
		}
		sb.WriteString(uEsc(t, r, style))
	}
	return sb.String()
}

// ---------------------------------------------------------------------------
// numbers

func randDigits(t *rapid.T, n int) string {
	var sb strings.Builder
	for sb.Len() < n {
		sb.WriteString(fmt.Sprintf("%019d", rapid.Uint64Range(0, 9999999999999999999).Draw(t, "digits")))
	}
	return sb.String()[:n]
}

// halfway draws a literal that lies exactly on, or a hair above/below, the
// midpoint between two adjacent float64 values.
func halfway(t *rapid.T) string {
	var bits uint64
	switch rapid.IntRange(0, 5).Draw(t, "hwclass") {
	case 0:
		bits = rapid.SampledFrom([]uint64{0, 1, 2, 0x000ffffffffffffe, 0x000fffffffffffff, 0x0010000000000000, 0x0010000000000001,
			0x7fefffffffffffff, 0x7feffffffffffffe, 0x3ff0000000000000, 0x3fefffffffffffff, 0x4340000000000000, 0x433fffffffffffff, 0x4330000000000000}).Draw(t, "hwbits")
	case 1:
		// subnormals
		bits = rapid.Uint64Range(0, 0x000fffffffffffff).Draw(t, "hwsub")
	case 2:
		// integers around 2^53..2^63
		bits = uint64(rapid.IntRange(1075, 1090).Draw(t, "hwexp"))<<52 | rapid.Uint64Range(0, 1<<52-1).Draw(t, "hwman")
	default:
		e := uint64(rapid.IntRange(0, 2046).Draw(t, "hwexp"))
		var m uint64
		switch rapid.IntRange(0, 3).Draw(t, "hwmanclass") {
		case 0:
			m = 0
		case 1:
			m = 1<<52 - 1
		default:
			m = rapid.Uint64Range(0, 1<<52-1).Draw(t, "hwman")
		}
		bits = e<<52 | m
	}
	// f = m * 2^e ; midpoint = (2m+1) * 2^(e-1)
	expf := int(bits >> 52)
	man := bits & (1<<52 - 1)
	var m uint64
	var e int
	if expf == 0 {
		m, e = man, -1074
	} else {
		m, e = man|1<<52, expf-1075
	}
	mid := new(big.Int).SetUint64(2*m + 1)
	e--
	// value = mid * 2^e = N / 10^scale
	N := new(big.Int)
	scale := 0
	if e >= 0 {
		N.Lsh(mid, uint(e))
	} else {
		N.Mul(mid, new(big.Int).Exp(big.NewInt(5), big.NewInt(int64(-e)), nil))
		scale = -e
	}
	// perturbation
	switch rapid.IntRange(0, 3).Draw(t, "hwdelta") {
	case 0, 1:
	case 2:
		j := rapid.IntRange(1, 6).Draw(t, "hwj")
		N.Mul(N, new(big.Int).Exp(big.NewInt(10), big.NewInt(int64(j)), nil))
		N.Add(N, big.NewInt(1))
		scale += j
	case 3:
		j := rapid.IntRange(1, 6).Draw(t, "hwj")
		N.Mul(N, new(big.Int).Exp(big.NewInt(10), big.NewInt(int64(j)), nil))
		N.Sub(N, big.NewInt(1))
		scale += j
	}
	return fmtScaled(t, N.String(), scale)
}

// fmtScaled spells digits / 10^scale as a JSON number, plain or scientific.
func fmtScaled(t *rapid.T, digits string, scale int) string {
	sci := rapid.Bool().Draw(t, "sci")
	if scale < 0 && (sci || scale < -400) {
		// more trailing zeros than we want to spell: keep the exponent form
		sci = true
	} else if scale < 0 {
		digits += strings.Repeat("0", -scale)
		scale = 0
	}
	if !sci && scale < 1200 {
		if scale == 0 {
			return digits
		}
		if len(digits) <= scale {
			return "0." + strings.Repeat("0", scale-len(digits)) + digits
		}
		return digits[:len(digits)-scale] + "." + digits[len(digits)-scale:]
	}
	exp := len(digits) - 1 - scale
	m := digits[:1]
	if len(digits) > 1 {
		m += "." + digits[1:]
	}
	return m + rapid.SampledFrom([]string{"e", "E"}).Draw(t, "e") + expSpelling(t, exp)
}

func expSpelling(t *rapid.T, exp int) string {
	s := strconv.Itoa(exp)
	if exp >= 0 {
		s = rapid.SampledFrom([]string{"", "+", "", "+0", "00"}).Draw(t, "expsign") + s
	} else if rapid.IntRange(0, 5).Draw(t, "expzero") == 0 {
		s = "-0" + s[1:]
	}
	return s
}

var limitLits = []string{
	"1.7976931348623157e308", "1.7976931348623158e308", "1.79769313486231580793e308", "1.797693134862315807e308", "1.797693134862315808e308",
	"1.7976931348623159e308", "179769313486231570000000000000000000000000000000000000000000000000000000000000000000000000000000000000000000000000000000000000000000000000000000000000000000000000000000000000000000000000000000000000000000000000000000000000000000000000000000000000000000000000000000000000000000000000000",
	"1e308", "1e309", "1e310", "2e308", "0.1e310", "10e307", "1e+400", "1e5000", "123e-4000", "0e5000", "0.0e-5000", "1e-5000",
	"4.9e-324", "5e-324", "4.9406564584124654e-324", "2.4703282292062327e-324", "2.4703282292062328e-324", "2.47032822920623272e-324", "2.470328229206232720882843964341106861825299013071623822127928412503377536351043e-324",
	"2.470328229206232720882843964341106861825299013071623822127928412503377536351044e-324", "1e-323", "1e-324", "3e-324", "7.4e-324", "7.5e-324",
	"2.2250738585072014e-308", "2.2250738585072011e-308", "2.2250738585072009e-308", "2.225073858507201e-308",
	"9007199254740991", "9007199254740992", "9007199254740993", "9007199254740994", "9007199254740995", "9007199254740993.0000000000000001", "9007199254740992.9999999999999999", "9007199254740993e0",
	"18014398509481985", "18014398509481986", "9223372036854775807", "9223372036854775808", "9223372036854775809", "18446744073709551615", "18446744073709551616", "18446744073709551617",
	"0.1", "0.2", "0.3", "0.30000000000000004", "0.1000000000000000055511151231257827021181583404541015625", "0.10000000000000000555111512312578270211815834045410156250000000001",
	"1.00000000000000011102230246251565404236316680908203125", "1.00000000000000011102230246251565404236316680908203124999999999", "1.00000000000000011102230246251565404236316680908203125000000001",
	"8.41e21", "8.4e21", "2.2250738585072012e-308", "6.631236871469758276785396630275967243399099947355303144249971758736286630139265439618068200788048744105960420552601852889715006376325666595539603330361800519107591783233358492337208057849499360899425128640718856616503093444922854759159988160304439909868291973931426625698663157749836252274523485312442358651207051292453083278116143932569727918709786004497872322193856150225415211997283078496319412124640111777216148110752815101775295719811974338451936095907419622417538473679495148632480391435931767981122396703443803335529756003353209830071832230689201383015598792184172909927924176339315507402234836120730914783168400715462440053817592702766213559042115986763819482654128770595766806872783349146967171293949598850675682115696218943412532098591327667236328125e-316",
}

func genNumber(t *rapid.T) string {
	neg := rapid.IntRange(0, 3).Draw(t, "neg") == 0
	var s string
	switch rapid.IntRange(0, 13).Draw(t, "numkind") {
	case 0, 1:
		return gen.Number(t)
	case 2, 3:
		s = halfway(t)
	case 4:
		n := rapid.SampledFrom([]int{15, 16, 17, 18, 19, 20, 21, 22, 23, 30, 100, 308, 309, 310}).Draw(t, "ndig")
		s = strconv.Itoa(rapid.IntRange(1, 9).Draw(t, "lead")) + randDigits(t, n-1)
	case 5:
		base := rapid.SampledFrom([]uint64{1 << 53, 1 << 54, 1 << 60, 1 << 63, 1<<64 - 9, 999999999999999, 9999999999999999, 99999999999999999}).Draw(t, "ibase")
		s = strconv.FormatUint(base+uint64(rapid.IntRange(0, 8).Draw(t, "ioff")), 10)
		if rapid.IntRange(0, 3).Draw(t, "over64") == 0 {
			s += strconv.Itoa(rapid.IntRange(0, 99).Draw(t, "tail"))
		}
	case 6:
		nd := rapid.IntRange(1, 26).Draw(t, "mdig")
		d := strconv.Itoa(rapid.IntRange(1, 9).Draw(t, "lead")) + randDigits(t, nd-1)
		exp := rapid.SampledFrom([]int{-400, -325, -324, -323, -308, -307, -30, -7, -6, -1, 0, 1, 6, 7, 15, 16, 20, 21, 22, 23, 30, 300, 307, 308, 309, 400}).Draw(t, "exp") + rapid.IntRange(-2, 2).Draw(t, "expoff")
		s = fmtScaled(t, d, nd-1-exp)
		if len(s) > 2000 {
			s = d + "e" + strconv.Itoa(exp-nd+1)
		}
	case 7, 8:
		f := math.Float64frombits(rapid.Uint64().Draw(t, "fbits"))
		if math.IsNaN(f) || math.IsInf(f, 0) {
			f = 1.5
		}
		f = math.Abs(f)
		switch rapid.IntRange(0, 4).Draw(t, "ffmt") {
		case 0:
			s = strconv.FormatFloat(f, 'e', -1, 64)
		case 1:
			s = strconv.FormatFloat(f, 'e', 16, 64)
		case 2:
			s = strconv.FormatFloat(f, 'e', rapid.IntRange(17, 40).Draw(t, "prec"), 64)
		case 3:
			s = strconv.FormatFloat(f, 'g', -1, 64)
			if a := math.Abs(f); a > 1e-30 && a < 1e30 {
				s = strconv.FormatFloat(f, 'f', -1, 64)
			}
		default:
			// shortest digits with the last one nudged
			s = strconv.FormatFloat(f, 'e', -1, 64)
			i := strings.IndexByte(s, 'e')
			d := s[i-1]
			if d >= '1' && d <= '8' {
				s = s[:i-1] + string(d+byte(rapid.SampledFrom([]int{-1, 1}).Draw(t, "nudge"))) + s[i:]
			}
		}
		s = strings.Replace(s, "e+", rapid.SampledFrom([]string{"e+", "e", "E", "E+"}).Draw(t, "espell"), 1)
	case 9:
		s = rapid.SampledFrom([]string{"0", "0.0", "0e0", "0E-0", "0.000", "0e+99", "0.0e-999", "0.00000000000000000000000000000000000000000000000000", "0e1", "0E1"}).Draw(t, "zero")
	case 10:
		s = rapid.SampledFrom(limitLits).Draw(t, "limit")
	case 11:
		z := rapid.SampledFrom([]int{1, 5, 15, 16, 17, 20, 21, 22, 23, 100, 307, 308, 309, 323, 324, 325, 330}).Draw(t, "nzeros")
		d := strconv.Itoa(rapid.IntRange(1, 9).Draw(t, "lead"))
		switch rapid.IntRange(0, 3).Draw(t, "zform") {
		case 0:
			s = d + strings.Repeat("0", z)
		case 1:
			s = "0." + strings.Repeat("0", z) + d
		case 2:
			s = d + "." + strings.Repeat("0", z)
		default:
			s = d + "." + strings.Repeat("0", z) + d
		}
	case 12:
		s = rapid.SampledFrom([]string{"1", "9", "1.5", "9.99", "12", "0.1", "1.0"}).Draw(t, "mant") +
			rapid.SampledFrom([]string{"e", "E"}).Draw(t, "e") + rapid.SampledFrom([]string{"", "+", "-"}).Draw(t, "sign") +
			rapid.SampledFrom([]string{"0", "00", "007", "1", "01", "10", "22", "23", "308", "0308"}).Draw(t, "expd")
	default:
		f := float64(rapid.Float32().Draw(t, "f32"))
		if math.IsNaN(f) || math.IsInf(f, 0) {
			f = 0.5
		}
		s = strconv.FormatFloat(math.Abs(f), 'g', -1, rapid.SampledFrom([]int{32, 64}).Draw(t, "fbitsize"))
		s = strings.Replace(s, "e+", "e", 1)
	}
	if neg {
		s = "-" + s
	}
	return s
}

// ---------------------------------------------------------------------------
// values

type valCfg struct {
	depth, width int
	strW, numW   int // relative weights of strings / numbers among leaves (literals weigh 1)
	pool         []string
}

func (b *bld) leaf(cfg valCfg) {
	k := rapid.IntRange(0, cfg.strW+cfg.numW).Draw(b.t, "leaf")
	switch {
	case k == 0:
		b.w(rapid.SampledFrom([]string{"null", "true", "false"}).Draw(b.t, "lit"))
	case k <= cfg.strW:
		b.str(b.pick(cfg))
	default:
		b.w(genNumber(b.t))
	}
}

func (b *bld) pick(cfg valCfg) string {
	if len(cfg.pool) > 0 && rapid.IntRange(0, 3).Draw(b.t, "frompool") != 0 {
		return rapid.SampledFrom(cfg.pool).Draw(b.t, "poolstr")
	}
	return genDecoded(b.t)
}

func (b *bld) value(cfg valCfg) {
	k := rapid.IntRange(0, 9).Draw(b.t, "kind")
	if cfg.depth <= 0 || k < 5 {
		b.leaf(cfg)
		return
	}
	sub := cfg
	sub.depth--
	if k < 7 {
		b.w("[")
		n := rapid.IntRange(0, cfg.width).Draw(b.t, "nelem")
		for i := 0; i < n; i++ {
			if i > 0 {
				b.w(",")
			}
			b.sp()
			b.value(sub)
			b.sp()
		}
		if n == 0 {
			b.sp()
		}
		b.w("]")
		return
	}
	b.object(sub, rapid.IntRange(0, cfg.width).Draw(b.t, "nmemb"))
}

// object writes an object with n members with pairwise different names.
func (b *bld) object(sub valCfg, n int) {
	b.w("{")
	seen := map[string]bool{}
	for i := 0; i < n; i++ {
		if i > 0 {
			b.w(",")
		}
		b.sp()
		name := b.pick(sub)
		for tries := 0; seen[name]; tries++ {
			if tries < 3 {
				name = b.pick(sub)
			} else {
				name += strconv.Itoa(i)
			}
		}
		seen[name] = true
		b.str(name)
		b.sp()
		b.w(":")
		b.sp()
		b.value(sub)
		b.sp()
	}
	if n == 0 {
		b.sp()
	}
	b.w("}")
}

func finish(t *rapid.T, docs ...[]byte) Case {
	total := 0
	for _, d := range docs {
		total += len(d) + 1
	}
	return Case{Docs: docs, Chunks: gen.Chunks(t, total), Wrap: rapid.IntRange(0, 3).Draw(t, "wrap") == 0, OptAtCall: rapid.Bool().Draw(t, "opt-at-call")}
}

// genShared: the shared grammar-directed generator.
func genShared(t *rapid.T) Case {
	cfg := gen.DocCfg{WS: rapid.Bool().Draw(t, "ws"), Wide: true, LongStr: true, MaxDepth: rapid.IntRange(0, 6).Draw(t, "maxdepth") + 1, MaxWidth: rapid.IntRange(1, 8).Draw(t, "maxwidth")}
	return finish(t, gen.Doc(t, cfg))
}

func genStrings(t *rapid.T) Case {
	b := newBld(t)
	b.sp()
	b.value(valCfg{depth: rapid.IntRange(0, 4).Draw(t, "depth"), width: rapid.IntRange(1, 6).Draw(t, "width"), strW: 8, numW: 1})
	b.sp()
	return finish(t, b.bytes())
}

func genNumbers(t *rapid.T) Case {
	b := newBld(t)
	b.sp()
	switch rapid.IntRange(0, 3).Draw(t, "shape") {
	case 0:
		b.w(genNumber(t))
	case 1:
		b.w("[")
		n := rapid.IntRange(1, 10).Draw(t, "n")
		for i := 0; i < n; i++ {
			if i > 0 {
				b.w(",")
			}
			b.sp()
			b.w(genNumber(t))
			b.sp()
		}
		b.w("]")
	default:
		b.value(valCfg{depth: rapid.IntRange(1, 3).Draw(t, "depth"), width: 5, strW: 1, numW: 8})
	}
	b.sp()
	return finish(t, b.bytes())
}

// genDeep: towers of up to 250 containers with siblings on the way.
func genDeep(t *rapid.T) Case {
	b := newBld(t)
	d := rapid.SampledFrom([]int{2, 3, 4, 8, 16, 33, 64, 65, 100, 128, 150, 199, 200, 201, 250}).Draw(t, "depth")
	shape := rapid.IntRange(0, 3).Draw(t, "shape") // all arrays, all objects, alternate, random
	leafCfg := valCfg{strW: 3, numW: 3}
	var closers []byte
	for i := 0; i < d; i++ {
		obj := false
		switch shape {
		case 1:
			obj = true
		case 2:
			obj = i%2 == 1
		case 3:
			obj = rapid.Bool().Draw(t, "obj")
		}
		sibs := 0
		if rapid.IntRange(0, 3).Draw(t, "sib?") == 0 {
			sibs = rapid.IntRange(1, 2).Draw(t, "nsib")
		}
		if obj {
			b.w("{")
			for j := 0; j < sibs; j++ {
				b.str(fmt.Sprintf("p%d", j))
				b.w(":")
				b.leaf(leafCfg)
				b.w(",")
				b.sp()
			}
			b.str(rapid.SampledFrom([]string{"c", "child", "", "k\n", string(rune(0x1f600))}).Draw(t, "cname"))
			b.sp()
			b.w(":")
			closers = append(closers, '}')
		} else {
			b.w("[")
			for j := 0; j < sibs; j++ {
				b.leaf(leafCfg)
				b.w(",")
				b.sp()
			}
			closers = append(closers, ']')
		}
	}
	// innermost value
	b.value(valCfg{depth: 1, width: 3, strW: 3, numW: 3})
	for i := len(closers) - 1; i >= 0; i-- {
		// trailing sibling after the nested child
		if rapid.IntRange(0, 7).Draw(t, "after?") == 0 {
			b.w(",")
			if closers[i] == '}' {
				b.str("q")
				b.w(":")
			}
			b.leaf(leafCfg)
		}
		b.sp()
		b.sb.WriteByte(closers[i])
	}
	return finish(t, b.bytes())
}

// genWide: objects (and arrays) with up to 300 members.
func genWide(t *rapid.T) Case {
	b := newBld(t)
	n := rapid.SampledFrom([]int{8, 16, 31, 32, 33, 63, 64, 65, 66, 100, 128, 129, 200, 255, 256, 257, 300}).Draw(t, "n")
	var pool []string
	if rapid.Bool().Draw(t, "usepool") {
		pool = genPool(t)
	}
	cfg := valCfg{depth: rapid.IntRange(0, 1).Draw(t, "depth"), width: 3, strW: 4, numW: 2, pool: pool}
	nest := rapid.IntRange(0, 2).Draw(t, "nest")
	for i := 0; i < nest; i++ {
		b.w(rapid.SampledFrom([]string{"[", `{"w":`, `[0,`}).Draw(t, "open"))
	}
	open := b.sb.String()
	if rapid.IntRange(0, 5).Draw(t, "arr") == 0 {
		b.w("[")
		for i := 0; i < n; i++ {
			if i > 0 {
				b.w(",")
			}
			b.sp()
			b.value(cfg)
		}
		b.w("]")
	} else {
		// names: mix of pool strings, counters and random strings, all different
		b.w("{")
		seen := map[string]bool{}
		style := rapid.IntRange(0, 2).Draw(t, "namestyle")
		for i := 0; i < n; i++ {
			if i > 0 {
				b.w(",")
			}
			b.sp()
			var name string
			switch {
			case style == 0:
				name = fmt.Sprintf("k%d", i)
			case style == 1 && i%2 == 0:
				name = fmt.Sprintf("field_%03d_name", i)
			default:
				name = b.pick(cfg)
			}
			for seen[name] {
				name += strconv.Itoa(i)
			}
			seen[name] = true
			b.str(name)
			b.sp()
			b.w(":")
			b.sp()
			b.value(cfg)
		}
		b.w("}")
	}
	for i := len(open) - 1; i >= 0; i-- {
		switch open[i] {
		case '[':
			b.w("]")
		case '{':
			b.w("}")
		}
	}
	return finish(t, b.bytes())
}

// ---------------------------------------------------------------------------
// intern-cache layer

// genPool draws a set of different strings many of which meet in one slot of
// the 256-entry intern cache: the cache hashes only the first and last 8 (4, 2)
// bytes, so strings that share them but differ in the middle or in length have
// equal hashes; in addition slot-mates with unrelated bytes are searched with
// the replicated slot function.
func genPool(t *rapid.T) []string {
	seen := map[string]bool{}
	var pool []string
	add := func(s string) {
		if utf8.ValidString(s) && !seen[s] {
			seen[s] = true
			pool = append(pool, s)
		}
	}
	alpha := rapid.SampledFrom([]string{"ab", "abcdefgh", "xy", "01", "a" + string(rune(0xe9)), "k\n\"", "z" + string(rune(0x1f600))}).Draw(t, "alpha")
	ar := []rune(alpha)
	word := func(n int, label string) string {
		rs := make([]rune, n)
		for i := range rs {
			rs[i] = ar[rapid.IntRange(0, len(ar)-1).Draw(t, label)]
		}
		return string(rs)
	}
	parts := rapid.IntRange(1, 3).Draw(t, "poolparts")
	for p := 0; p < parts; p++ {
		switch rapid.IntRange(0, 3).Draw(t, "poolkind") {
		case 0:
			// common first 8 / last 8 bytes, different middles (several of equal length)
			pre, suf := word(8, "pre"), word(8, "suf")
			k := rapid.IntRange(2, 6).Draw(t, "nmid")
			for i := 0; i < k; i++ {
				ml := rapid.SampledFrom([]int{0, 1, 1, 2, 2, 3, 3, 5, 8, 8, 16, 100, 224, 238, 239, 240, 241}).Draw(t, "midlen")
				add(pre + word(ml, "mid") + suf)
			}
		case 1:
			// periodic strings: lengths L and L+p share their first and last 8 (4, 2) bytes
			pat := word(rapid.IntRange(1, 4).Draw(t, "period"), "pat")
			base := rapid.IntRange(1, 12).Draw(t, "baselen")
			k := rapid.IntRange(2, 6).Draw(t, "nper")
			for i := 0; i < k; i++ {
				n := base + i*rapid.IntRange(1, 3).Draw(t, "step")
				add(strings.Repeat(pat, n))
			}
		case 2:
			// slot-mates of equal length found by search
			s0 := word(rapid.IntRange(2, 20).Draw(t, "s0len"), "s0")
			if len(s0) > 256 {
				s0 = "seed"
			}
			add(s0)
			want := slotOf(s0)
			k := rapid.IntRange(1, 3).Draw(t, "nmates")
			rs := []rune(s0)
			start := rapid.IntRange(0, 1000).Draw(t, "searchfrom")
			for c := start; c < start+20000 && k > 0; c++ {
				// overwrite the leading runes with a base-26 counter
				x := c
				m := append([]rune(nil), rs...)
				for i := 0; i < len(m) && i < 4; i++ {
					m[i] = rune('a' + x%26)
					x /= 26
				}
				cand := string(m)
				if !seen[cand] && slotOf(cand) == want {
					add(cand)
					k--
				}
			}
		default:
			// unrelated short strings (birthday collisions in 256 slots)
			k := rapid.IntRange(2, 8).Draw(t, "nrand")
			for i := 0; i < k; i++ {
				add(word(rapid.IntRange(2, 9).Draw(t, "rlen"), "rw"))
			}
		}
	}
	if len(pool) == 0 {
		pool = []string{"aa", "aaa"}
	}
	return pool
}

func (b *bld) internDoc(pool []string) {
	t := b.t
	pickS := func() string { return rapid.SampledFrom(pool).Draw(t, "ps") }
	switch rapid.IntRange(0, 4).Draw(t, "ishape") {
	case 0:
		b.w("[")
		n := rapid.IntRange(2, 12).Draw(t, "n")
		for i := 0; i < n; i++ {
			if i > 0 {
				b.w(",")
			}
			b.sp()
			b.str(pickS())
		}
		b.w("]")
	case 1:
		// every pool string as a name (rotated), values from the pool
		b.w("{")
		off := rapid.IntRange(0, len(pool)-1).Draw(t, "rot")
		for i := range pool {
			if i > 0 {
				b.w(",")
			}
			b.sp()
			b.str(pool[(i+off)%len(pool)])
			b.w(":")
			b.sp()
			if rapid.Bool().Draw(t, "strval") {
				b.str(pickS())
			} else {
				b.w(rapid.SampledFrom([]string{"1", "null", "[]", "{}", "true"}).Draw(t, "v"))
			}
		}
		b.w("}")
	case 2:
		b.w("[")
		n := rapid.IntRange(2, 8).Draw(t, "n")
		for i := 0; i < n; i++ {
			if i > 0 {
				b.w(",")
			}
			b.w("{")
			b.str(pickS())
			b.w(":")
			b.str(pickS())
			b.w("}")
		}
		b.w("]")
	case 3:
		b.str(pickS())
	default:
		b.value(valCfg{depth: 3, width: 4, strW: 8, numW: 1, pool: pool})
	}
}

func genIntern(t *rapid.T) Case {
	pool := genPool(t)
	n := rapid.IntRange(1, 5).Draw(t, "ndocs")
	docs := make([][]byte, n)
	for i := range docs {
		b := newBld(t)
		b.internDoc(pool)
		docs[i] = b.bytes()
	}
	return finish(t, docs...)
}

// genStream: several general documents on one decoder.
func genStream(t *rapid.T) Case {
	n := rapid.IntRange(2, 5).Draw(t, "ndocs")
	docs := make([][]byte, n)
	for i := range docs {
		if rapid.Bool().Draw(t, "shared") {
			docs[i] = gen.Doc(t, gen.DocCfg{WS: true, LongStr: true, MaxDepth: 3, MaxWidth: 4})
			continue
		}
		b := newBld(t)
		b.value(valCfg{depth: rapid.IntRange(0, 3).Draw(t, "depth"), width: 4, strW: 4, numW: 3})
		docs[i] = b.bytes()
	}
	return finish(t, docs...)
}

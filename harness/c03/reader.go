package c03

import "io"

// chunkReader hands out data according to a schedule of chunk lengths that is
// cycled. A zero entry produces one empty read (0, nil), never two in a row.
// The last chunk is delivered together with io.EOF when the schedule has an
// odd number of entries.
type chunkReader struct {
	data     []byte
	sched    []int
	i        int
	lastZero bool
	eofWith  bool
}

func newChunkReader(data []byte, sched []int) io.Reader {
	ok := false
	for _, n := range sched {
		if n > 0 {
			ok = true
		}
	}
	if !ok {
		sched = []int{len(data) + 1}
	}
	return &chunkReader{data: data, sched: sched, eofWith: len(sched)%2 == 1}
}

func (r *chunkReader) Read(p []byte) (int, error) {
	if len(r.data) == 0 {
		return 0, io.EOF
	}
	if len(p) == 0 {
		return 0, nil
	}
	n := r.sched[r.i%len(r.sched)]
	r.i++
	if n <= 0 {
		if !r.lastZero {
			r.lastZero = true
			return 0, nil
		}
		n = 1
	}
	r.lastZero = false
	n = min(n, len(p), len(r.data))
	copy(p, r.data[:n])
	r.data = r.data[n:]
	if len(r.data) == 0 && r.eofWith {
		return n, io.EOF
	}
	return n, nil
}

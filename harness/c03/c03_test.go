package c03

import (
	"fmt"
	"testing"

	"verif/harness/rt"
)

func TestCheck(t *testing.T) {
	e := rt.Setup(t, "C03")
	defer e.Finish()
	rec = e.Rec
	oracleFail = e.OracleFail

	selfTest(e)

	rt.Rapid(e, "docs", 30_000, 180_000, genShared, Run)
	rt.Rapid(e, "strings", 30_000, 180_000, genStrings, Run)
	rt.Rapid(e, "numbers", 30_000, 180_000, genNumbers, Run)
	rt.Rapid(e, "intern", 24_000, 144_000, genIntern, Run)
	rt.Rapid(e, "stream", 12_000, 72_000, genStream, Run)
	rt.Rapid(e, "wide", 2_000, 12_000, genWide, Run)
	rt.Rapid(e, "deep", 1_500, 9_000, genDeep, Run)

	if historyDependent.n > 0 {
		e.OracleFail(fmt.Sprintf("%d case(s) failed once but passed when re-run from clean decoder pools (the wrong result depends on state left by earlier calls and is not reproducible from the case alone); first: %s", historyDependent.n, historyDependent.first))
	}
}

package c17

import (
	"bytes"
	"errors"
	"fmt"
	"strings"

	"github.com/go-json-experiment/json"
	"github.com/go-json-experiment/json/jsontext"

	"verif/harness/rt"
)

// The user code of the pool types and of the generated functions is scripted:
// every method/function forwards to a hook below, which appends its identity to
// the call log of the current execution and then behaves as the case demands.
// There is no concurrency: one execution at a time, state in cur.

type leaf struct {
	kind, target, beh string
}

type state struct {
	c      *Case
	leaves []leaf
	log    []string
	flags  []string // harness observations that are violations by themselves
	popped bool     // a pop-* script got below its entry depth
	resets int      // Reset calls that panicked as documented
	optsOK int      // option queries that agreed with the caller's options

	callerOpts json.Options
	marshalers *json.Marshalers
	unmarshals *json.Unmarshalers
	hasFuncs   bool
}

var cur *state

var errCustom = errors.New("c17: scripted user error")
var errCannotPop = errors.New("c17: pop script could not pop (no enclosing container or unexpected token)")

func (s *state) flag(f string) { s.flags = append(s.flags, f) }

func hookNil(what string) error {
	cur.flag("called with nil/foreign receiver: " + what)
	return errCustom
}

func (s *state) meth(i int) string {
	if i < len(s.c.Meth) {
		return s.c.Meth[i]
	}
	return ""
}

func (s *state) leafBeh(id int) string {
	if id < len(s.leaves) {
		return s.leaves[id].beh
	}
	s.flag(fmt.Sprintf("function f%d called but not in the list", id))
	return ""
}

// ---- option visibility --------------------------------------------------

type boolOpt struct {
	name string
	ctor func(bool) json.Options
}

var boolOpts = []boolOpt{
	{"Deterministic", json.Deterministic},
	{"FormatNilSliceAsNull", json.FormatNilSliceAsNull},
	{"FormatNilMapAsNull", json.FormatNilMapAsNull},
	{"OmitZeroStructFields", json.OmitZeroStructFields},
	{"MatchCaseInsensitiveNames", json.MatchCaseInsensitiveNames},
	{"RejectUnknownMembers", json.RejectUnknownMembers},
	{"EscapeForHTML", jsontext.EscapeForHTML},
	{"EscapeForJS", jsontext.EscapeForJS},
	{"AllowDuplicateNames", jsontext.AllowDuplicateNames},
	{"AllowInvalidUTF8", jsontext.AllowInvalidUTF8},
}

// wsOpts are never passed by the generated callers: inside a call they must read false.
var wsOpts = []boolOpt{
	{"Multiline", jsontext.Multiline},
	{"SpaceAfterColon", jsontext.SpaceAfterColon},
	{"SpaceAfterComma", jsontext.SpaceAfterComma},
}

func buildOpts(names []string) []json.Options {
	var out []json.Options
	for _, n := range names {
		name, val, _ := strings.Cut(n, "=")
		for _, bo := range boolOpts {
			if bo.name == name {
				out = append(out, bo.ctor(val == "true"))
			}
		}
	}
	return out
}

// checkOpts compares the options visible inside a call with the caller's.
func (s *state) checkOpts(inside json.Options) {
	ok := true
	for _, bo := range boolOpts {
		want, wantSet := json.GetOption(s.callerOpts, bo.ctor)
		got, gotSet := json.GetOption(inside, bo.ctor)
		if got != want || (wantSet && !gotSet) {
			s.flag(fmt.Sprintf("option %s inside the call = (%v,%v), caller's = (%v,%v)", bo.name, got, gotSet, want, wantSet))
			ok = false
		}
	}
	if s.c.Dir == "m" {
		for _, bo := range wsOpts {
			want, _ := json.GetOption(s.callerOpts, bo.ctor)
			if got, _ := json.GetOption(inside, bo.ctor); got != want {
				s.flag(fmt.Sprintf("option %s inside the call = %v, caller's = %v", bo.name, got, want))
				ok = false
			}
		}
		if got, _ := json.GetOption(inside, jsontext.WithIndent); got != "" {
			s.flag(fmt.Sprintf("indent %q visible inside a call whose caller asked for none", got))
			ok = false
		}
		if m, _ := json.GetOption(inside, json.WithMarshalers); m != s.marshalers {
			s.flag("WithMarshalers visible inside differs from the caller's")
			ok = false
		}
	} else {
		if u, _ := json.GetOption(inside, json.WithUnmarshalers); u != s.unmarshals {
			s.flag("WithUnmarshalers visible inside differs from the caller's")
			ok = false
		}
	}
	if ok {
		s.optsOK++
	}
}

// ---- marshal hooks --------------------------------------------------------

func hookTo(enc *jsontext.Encoder, x int) error {
	return encHook("To", cur.meth(0), enc, fmt.Sprint(x), x-1)
}
func hookM(x int) ([]byte, error) { return bytesHook("M", cur.meth(1), fmt.Sprint(x), x-1) }
func hookA(b []byte, x int) ([]byte, error) {
	t, err := textHook("A", cur.meth(2), fmt.Sprint(x), x-1)
	return append(b, t...), err
}
func hookT(x int) ([]byte, error) { return textHook("T", cur.meth(3), fmt.Sprint(x), x-1) }

func hookFn(id int, label string, idx int) ([]byte, error) {
	return bytesHook(fmt.Sprintf("f%d", id), cur.leafBeh(id), label, idx)
}
func hookFnTo(id int, enc *jsontext.Encoder, label string, idx int) error {
	return encHook(fmt.Sprintf("f%d", id), cur.leafBeh(id), enc, label, idx)
}

func repName(id, label string) string { return id + "#" + label }

func encHook(id, beh string, enc *jsontext.Encoder, label string, idx int) error {
	s := cur
	name := repName(id, label)
	s.log = append(s.log, name)
	if idx != s.c.When {
		beh = "one"
	}
	one := func() error { return enc.WriteToken(jsontext.String(name)) }
	switch beh {
	case "one-arr":
		if err := enc.WriteToken(jsontext.BeginArray); err != nil {
			return err
		}
		if err := one(); err != nil {
			return err
		}
		return enc.WriteToken(jsontext.EndArray)
	case "zero":
		return nil
	case "two":
		if err := one(); err != nil {
			return err
		}
		return one()
	case "partial":
		if err := enc.WriteToken(jsontext.BeginArray); err != nil {
			return err
		}
		return one()
	case "unsup":
		// only non-mutating calls before giving up
		_ = enc.StackDepth()
		_ = enc.OutputOffset()
		_ = enc.Options()
		return errors.ErrUnsupported
	case "unsup-after":
		if err := one(); err != nil {
			return err
		}
		return errors.ErrUnsupported
	case "unsup-open":
		// begins a container (so the coder was used) and then gives up
		if err := enc.WriteToken(jsontext.BeginArray); err != nil {
			return err
		}
		return errors.ErrUnsupported
	case "err":
		return errCustom
	case "err-after":
		if err := one(); err != nil {
			return err
		}
		return errCustom
	case "reset":
		if p := rt.Guard(func() { enc.Reset(new(bytes.Buffer)) }); p == nil {
			s.flag("Encoder.Reset inside " + id + " did not panic: the coder was reset from within")
		} else {
			s.resets++
		}
		return one()
	case "options":
		s.checkOpts(enc.Options())
		return one()
	case "nested-ok", "nested-ws":
		// A nested MarshalEncode call with options of its own: they "only
		// apply for the duration of the marshal call", whether it succeeds
		// (nested-ok) or is turned down because it asks for another
		// whitespace style (nested-ws); afterwards the caller's are visible
		// again. Either way exactly the one value `name` gets written.
		det, _ := json.GetOption(s.callerOpts, json.Deterministic)
		nsn, _ := json.GetOption(s.callerOpts, json.FormatNilSliceAsNull)
		nopts := []json.Options{json.Deterministic(!det), json.FormatNilSliceAsNull(!nsn), json.WithMarshalers(nil)}
		if beh == "nested-ws" {
			nopts = append(nopts, jsontext.WithIndent("  "))
		}
		err := json.MarshalEncode(enc, keyT(name), nopts...)
		s.checkOpts(enc.Options())
		if err != nil {
			if beh == "nested-ok" {
				return err
			}
			return one()
		}
		return nil
	case "pop-repush", "pop-unsup":
		extra := int64(1)
		if beh == "pop-unsup" {
			extra = 0
		}
		d := enc.StackDepth()
		if d == 0 {
			return errCannotPop
		}
		kind, n := enc.StackIndex(d)
		begin, end := jsontext.BeginArray, jsontext.EndArray
		if kind == '{' {
			begin, end = jsontext.BeginObject, jsontext.EndObject
			if n%2 == 1 { // a name is pending: the value must be written before the object can be closed
				if err := one(); err != nil {
					return err
				}
			}
		}
		if err := enc.WriteToken(end); err != nil {
			return err
		}
		s.popped = true
		if err := enc.WriteToken(begin); err != nil {
			return err
		}
		for i := int64(0); i < n+extra; i++ {
			if err := enc.WriteToken(jsontext.String(fmt.Sprintf("p%d", i))); err != nil {
				return err
			}
		}
		if extra == 0 {
			return errors.ErrUnsupported
		}
		return nil
	case "pop2-repush":
		// leave TWO enclosing arrays and rebuild both with the same lengths
		d := enc.StackDepth()
		if d < 2 {
			return errCannotPop
		}
		k1, n := enc.StackIndex(d)
		k0, a := enc.StackIndex(d - 1)
		if k1 != '[' || k0 != '[' {
			return errCannotPop
		}
		if err := enc.WriteToken(jsontext.EndArray); err != nil {
			return err
		}
		s.popped = true
		if err := enc.WriteToken(jsontext.EndArray); err != nil {
			return err
		}
		if err := enc.WriteToken(jsontext.BeginArray); err != nil {
			return err
		}
		for i := int64(0); i < a-1; i++ {
			if err := enc.WriteToken(jsontext.String("filler")); err != nil {
				return err
			}
		}
		if err := enc.WriteToken(jsontext.BeginArray); err != nil {
			return err
		}
		for i := int64(0); i < n+1; i++ {
			if err := enc.WriteToken(jsontext.String(fmt.Sprintf("p%d", i))); err != nil {
				return err
			}
		}
		return nil
	default: // "one", ""
		return one()
	}
}

func bytesHook(id, beh string, label string, idx int) ([]byte, error) {
	s := cur
	name := repName(id, label)
	s.log = append(s.log, name)
	if idx != s.c.When {
		beh = "one"
	}
	q := `"` + name + `"`
	switch beh {
	case "one-arr":
		return []byte("[" + q + "]"), nil
	case "zero":
		return []byte{}, nil
	case "two":
		return []byte(q + " " + q), nil
	case "partial":
		return []byte("[" + q), nil
	case "invalid":
		return []byte(`"` + name), nil
	case "unsup":
		return nil, errors.ErrUnsupported
	case "err":
		return nil, errCustom
	default:
		return []byte(q), nil
	}
}

func textHook(id, beh string, label string, idx int) ([]byte, error) {
	s := cur
	name := repName(id, label)
	s.log = append(s.log, name)
	if idx != s.c.When {
		beh = "one"
	}
	switch beh {
	case "empty":
		return []byte{}, nil
	case "unsup":
		return nil, errors.ErrUnsupported
	case "err":
		return nil, errCustom
	default:
		return []byte(name), nil
	}
}

// ---- unmarshal hooks --------------------------------------------------------

func hookFrom(dec *jsontext.Decoder, got *string) error {
	return decHook("From", cur.meth(0), dec, func(s string) { *got = s })
}
func hookU(b []byte, got *string) error {
	return ubytesHook("U", cur.meth(1), b, func(s string) { *got = s })
}
func hookUT(b []byte, got *string) error {
	return ubytesHook("UT", cur.meth(2), b, func(s string) { *got = s })
}
func hookFnFrom(id int, dec *jsontext.Decoder, set func(string)) error {
	return decHook(fmt.Sprintf("f%d", id), cur.leafBeh(id), dec, set)
}
func hookFnU(id int, b []byte, set func(string)) error {
	return ubytesHook(fmt.Sprintf("f%d", id), cur.leafBeh(id), b, set)
}

func twoElemU(pos string) bool { return pos == "slice" || pos == "array" || pos == "slice2" }

func decHook(id, beh string, dec *jsontext.Decoder, set func(string)) error {
	s := cur
	idx := 0
	if twoElemU(s.c.Pos) {
		_, n := dec.StackIndex(dec.StackDepth())
		idx = int(n)
	}
	s.log = append(s.log, fmt.Sprintf("%s@%d", id, idx))
	if idx != s.c.When {
		beh = "one"
	}
	one := func() error {
		v, err := dec.ReadValue()
		if err != nil {
			return err
		}
		set(id + ":" + string(v))
		return nil
	}
	switch beh {
	case "one-tok":
		d0 := dec.StackDepth()
		for {
			if _, err := dec.ReadToken(); err != nil {
				return err
			}
			if dec.StackDepth() <= d0 {
				break
			}
		}
		set(id + ":tok")
		return nil
	case "zero":
		return nil
	case "two":
		if err := one(); err != nil {
			return err
		}
		return one()
	case "partial":
		_, err := dec.ReadToken()
		set(id + ":partial")
		return err
	case "open-all":
		// opens the array or object and reads everything in it except the closing token: the number of
		// values read inside may equal the number the caller expects at its own level, the depth does not
		tok, err := dec.ReadToken()
		set(id + ":partial")
		if err != nil || (tok.Kind() != '[' && tok.Kind() != '{') {
			return err
		}
		for k := dec.PeekKind(); k != ']' && k != '}' && k != 0; k = dec.PeekKind() {
			if err := dec.SkipValue(); err != nil {
				return err
			}
		}
		return nil
	case "unsup":
		_ = dec.PeekKind()
		_ = dec.StackDepth()
		_ = dec.InputOffset()
		_ = dec.Options()
		return errors.ErrUnsupported
	case "unsup-after":
		if err := one(); err != nil {
			return err
		}
		return errors.ErrUnsupported
	case "unsup-open":
		// reads one token (so the coder was used) and then gives up
		if _, err := dec.ReadToken(); err != nil {
			return err
		}
		return errors.ErrUnsupported
	case "err":
		return errCustom
	case "err-after":
		if err := one(); err != nil {
			return err
		}
		return errCustom
	case "reset":
		if p := rt.Guard(func() { dec.Reset(strings.NewReader("0")) }); p == nil {
			s.flag("Decoder.Reset inside " + id + " did not panic: the coder was reset from within")
		} else {
			s.resets++
		}
		return one()
	case "options":
		s.checkOpts(dec.Options())
		return one()
	case "nested":
		// A nested UnmarshalDecode call with options of its own (turned down
		// at an object name, where the duplicate-name setting may not
		// change): afterwards the caller's options are visible again.
		dup, _ := json.GetOption(s.callerOpts, jsontext.AllowDuplicateNames)
		rej, _ := json.GetOption(s.callerOpts, json.RejectUnknownMembers)
		var raw jsontext.Value
		err := json.UnmarshalDecode(dec, &raw, jsontext.AllowDuplicateNames(!dup), json.RejectUnknownMembers(!rej), json.WithUnmarshalers(nil))
		s.checkOpts(dec.Options())
		if err != nil {
			return one()
		}
		set(id + ":" + string(raw))
		return nil
	case "pop-repush", "pop-unsup":
		extra := int64(1)
		if beh == "pop-unsup" {
			extra = 0
		}
		d := dec.StackDepth()
		if d == 0 {
			return errCannotPop
		}
		kind, n := dec.StackIndex(d)
		if err := one(); err != nil {
			return err
		}
		if kind == '{' && n%2 == 0 { // a name was read: its value must follow before the object can end
			if _, err := dec.ReadValue(); err != nil {
				return err
			}
		}
		tok, err := dec.ReadToken()
		if err != nil {
			return err
		}
		if k := tok.Kind(); k != '}' && k != ']' {
			return errCannotPop
		}
		s.popped = true
		tok, err = dec.ReadToken()
		if err != nil {
			return err
		}
		if k := tok.Kind(); k != '{' && k != '[' {
			return errCannotPop
		}
		for i := int64(0); i < n+extra; i++ {
			if _, err := dec.ReadValue(); err != nil {
				return err
			}
		}
		if extra == 0 {
			return errors.ErrUnsupported
		}
		return nil
	case "pop2-repush":
		d := dec.StackDepth()
		if d < 2 {
			return errCannotPop
		}
		k1, n := dec.StackIndex(d)
		k0, a := dec.StackIndex(d - 1)
		if k1 != '[' || k0 != '[' {
			return errCannotPop
		}
		if err := one(); err != nil {
			return err
		}
		want := []jsontext.Kind{']', ']', '['}
		for i, k := range want {
			tok, err := dec.ReadToken()
			if err != nil {
				return err
			}
			if tok.Kind() != k {
				return errCannotPop
			}
			if i == 0 {
				s.popped = true
			}
		}
		for i := int64(0); i < a-1; i++ {
			if _, err := dec.ReadValue(); err != nil {
				return err
			}
		}
		if tok, err := dec.ReadToken(); err != nil {
			return err
		} else if tok.Kind() != '[' {
			return errCannotPop
		}
		for i := int64(0); i < n+1; i++ {
			if _, err := dec.ReadValue(); err != nil {
				return err
			}
		}
		return nil
	default:
		return one()
	}
}

func ubytesHook(id, beh string, b []byte, set func(string)) error {
	s := cur
	idx := 0
	if twoElemU(s.c.Pos) && bytes.Contains(b, []byte("2")) {
		idx = 1
	}
	s.log = append(s.log, fmt.Sprintf("%s@%d", id, idx))
	if idx != s.c.When {
		beh = "one"
	}
	switch beh {
	case "unsup":
		return errors.ErrUnsupported
	case "err":
		return errCustom
	default:
		set(id + ":" + string(b))
		return nil
	}
}

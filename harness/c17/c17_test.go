package c17

import (
	"path/filepath"
	"runtime"
	"runtime/debug"
	"testing"

	"verif/harness/rt"
)

// f2Probe is the smallest instance of finding F2: the MarshalJSONTo method of
// the second element of a slice closes the array, opens a new one and writes
// two values; Marshal must fail.
var f2Probe = Case{Dir: "m", Type: "M1000", Pos: "slice", Meth: []string{"pop-repush", "one", "one", "one"}, When: 1}

// nilListProbe is the smallest instance of finding F13: a nil *Marshalers
// ("equivalent to an empty list") passed while an `any` value is marshaled.
var nilListProbe = Case{Dir: "m", Type: "M0000", Pos: "iface-val", Funcs: &Node{Nil: true}}

func TestCheck(t *testing.T) {
	// The work is single-threaded and allocation-heavy (tiny Marshal calls):
	// keep the collector from occupying the other cores of a shared machine.
	runtime.GOMAXPROCS(2)
	debug.SetGCPercent(400)

	e := rt.Setup(t, "C17")
	defer e.Finish()
	rec = e.Rec

	selfTest(e)

	// Finding F2 (scripts that pop below their entry depth pass the one-value
	// check). If it is listed in known_findings.txt the cases are generated and
	// suppressed by classifier; if it is not listed but still present, the
	// generators leave the class out (counted); if it has been fixed, the class
	// is generated and must pass.
	listed := map[string]bool{}
	for _, k := range rt.LoadKnown(filepath.Join(e.Root, "known_findings.txt")) {
		if k.Property == "C17" {
			listed[k.Classifier] = true
		}
	}
	probe := func(c Case) bool {
		saved := rec
		rec = covScratch()
		defer func() { rec = saved }()
		return Run(c) != nil
	}
	if !e.Replaying() {
		if !listed[f2Classifier] && probe(f2Probe) {
			excludeF2 = true
			rec.Class("f2-present-and-unlisted:class-excluded")
		}
		if !listed[nilListClassifier] && probe(nilListProbe) {
			excludeNilList = true
			rec.Class("f13-present-and-unlisted:class-excluded")
		}
	}

	rt.Only(e, "f2", Run)
	rt.Enum(e, "m-methods", func(yield func(Case) bool) { enumMethods(e, "m", yield) }, Run)
	rt.Enum(e, "u-methods", func(yield func(Case) bool) { enumMethods(e, "u", yield) }, Run)
	rt.Enum(e, "m-funcs", func(yield func(Case) bool) { enumFuncs(e, "m", yield) }, Run)
	rt.Enum(e, "u-funcs", func(yield func(Case) bool) { enumFuncs(e, "u", yield) }, Run)
	rt.Rapid(e, "owned", 60_000, 600_000, genOCase, RunOwned)
	rt.Rapid(e, "rapid-m", 250_000, 3_000_000, genCase("m"), Run)
	rt.Rapid(e, "rapid-u", 250_000, 3_000_000, genCase("u"), Run)
}

package c17

import (
	"testing"

	"verif/harness/rt"
)

// FuzzDispatch lets the native fuzzer drive the "rapid-m" generator (coverage-guided).
func FuzzDispatch(f *testing.F) {
	rt.FuzzRapid(f, "C17", "rapid-m", genCase("m"), Run)
}

package c17

import (
	"fmt"

	"verif/harness/cov"
	"verif/harness/rt"
)

func covScratch() *cov.Recorder { return cov.New() }

// selfTest checks the harness itself (an inconsistency is an oracle failure,
// never a violation): pool sizes, and that normalise is idempotent on the
// cases the enumerations produce.
func selfTest(e *rt.Env) {
	if len(mPool) != 81 || len(uPool) != 27 {
		e.OracleFail(fmt.Sprintf("pool sizes %d/%d, want 81/27", len(mPool), len(uPool)))
	}
	if n := len(methodVectors("m", []int{1, 2, 0, 1})); n != len(coderBehs)-1+len(bytesBehsM) {
		e.OracleFail(fmt.Sprintf("methodVectors yields %d vectors", n))
	}
	// model sanity on hand-computed examples from the documentation
	c, _ := normalise(Case{Dir: "m", Type: "M2121", Pos: "slice", Meth: []string{"unsup", "one", "one", "one"}, When: 1})
	x := modelMarshal(&c, findM("M2121").Recv)
	if x.err || x.out != `["To#1","M#2"]` || fmt.Sprint(x.log) != "[To#1 To#2 M#2]" {
		e.OracleFail(fmt.Sprintf("model self-test 1: %+v", x))
	}
	c, _ = normalise(Case{Dir: "u", Type: "U022", Pos: "field", In: "obj", Meth: []string{"one", "err", "one"}})
	y, doc := modelUnmarshal(&c, findU("U022").Recv)
	if !y.err || doc != `{"F":{"X":1}}` || fmt.Sprint(y.log) != "[U@0]" {
		e.OracleFail(fmt.Sprintf("model self-test 2: %+v %s", y, doc))
	}
}

package c17

import (
	"fmt"
	"reflect"

	"github.com/go-json-experiment/json"
	"github.com/go-json-experiment/json/jsontext"
)

// PooledM is implemented by T and *T for every marshal pool type.
type PooledM interface {
	PoolID() int
	PoolX() int
}

// PooledU is implemented by *T only for every unmarshal pool type.
type PooledU interface {
	PoolID() int
	SetGot(string)
}

// otherT never occurs in any value: functions registered for it must never run.
type otherT struct{ Z int }

// keyT is a string-kinded map key type that no function in a list targets
// (functions on string / *string would apply to plain string keys).
type keyT string

// FieldOf places a value in a struct field.
type FieldOf[T any] struct{ F T }

// mEntry is the per-type operation table of a marshal pool type.
type mEntry struct {
	Name  string
	Recv  [4]int // receiver kind of MarshalerTo, Marshaler, TextAppender, TextMarshaler
	Build func(pos string) any
	Func  func(kind, target string, id int) *json.Marshalers
}

// uEntry is the per-type operation table of an unmarshal pool type.
type uEntry struct {
	Name  string
	Recv  [3]int // receiver kind of UnmarshalerFrom, Unmarshaler, TextUnmarshaler
	Typ   reflect.Type
	Build func(pos string) any
	Func  func(kind, target string, id int) *json.Unmarshalers
}

func mk[T any](x int) T {
	var t T
	reflect.ValueOf(&t).Elem().Field(0).SetInt(int64(x))
	return t
}

func regM[T any](name string, recv [4]int) *mEntry {
	return &mEntry{Name: name, Recv: recv,
		Build: func(pos string) any { return buildM[T](pos) },
		Func:  func(kind, target string, id int) *json.Marshalers { return mkMFunc[T](kind, target, id) },
	}
}

func regU[T any](name string, recv [3]int) *uEntry {
	return &uEntry{Name: name, Recv: recv, Typ: reflect.TypeFor[T](),
		Build: func(pos string) any { return buildU[T](pos) },
		Func:  func(kind, target string, id int) *json.Unmarshalers { return mkUFunc[T](kind, target, id) },
	}
}

// Marshal positions. twoElem positions hold the values X=1 and X=2, the
// others X=1; nil positions hold no pool value at all.
var mPositions = []string{
	"top-val", "top-ptr", "field-val", "field-ptr", "slice", "array-val", "array-ptr",
	"map-key", "map-val", "iface-val", "iface-ptr", "iface-named", "ptr", "slice2",
	"nil-ptr", "top-nil", "iface-nilptr", "any-str", "mapany-str", "imap-val",
}

func buildM[T any](pos string) any {
	t1, t2 := mk[T](1), mk[T](2)
	switch pos {
	case "top-val":
		return t1
	case "top-ptr":
		return &t1
	case "field-val":
		return FieldOf[T]{t1}
	case "field-ptr":
		return &FieldOf[T]{t1}
	case "slice":
		return []T{t1, t2}
	case "slice2":
		return [][]T{{t1, t2}}
	case "array-val":
		return [2]T{t1, t2}
	case "array-ptr":
		return &[2]T{t1, t2}
	case "map-key":
		// T is a comparable struct; MapOf via reflect to stay generic.
		m := reflect.MakeMap(reflect.MapOf(reflect.TypeFor[T](), reflect.TypeFor[int]()))
		m.SetMapIndex(reflect.ValueOf(t1), reflect.ValueOf(0))
		return m.Interface()
	case "map-val":
		return map[keyT]T{"k": t1}
	case "iface-val":
		return []any{t1}
	case "iface-ptr":
		return []any{&t1}
	case "iface-named":
		return []PooledM{any(t1).(PooledM)}
	case "ptr":
		return []*T{&t1}
	case "nil-ptr":
		return []*T{nil}
	case "top-nil":
		return (*T)(nil)
	case "iface-nilptr":
		return []any{(*T)(nil)}
	case "any-str":
		return []any{"s"}
	case "mapany-str":
		return map[string]any{"k": "s"}
	case "imap-val":
		return map[int]T{1: t1, 2: t2}
	}
	panic("harness: unknown marshal position " + pos)
}

func xOf[T any](v T) int { return any(v).(PooledM).PoolX() }

func mkMFunc[T any](kind, target string, id int) *json.Marshalers {
	to := kind == "to"
	switch target {
	case "T":
		if to {
			return json.MarshalToFunc(func(enc *jsontext.Encoder, v T) error { return hookFnTo(id, enc, fmt.Sprint(xOf(v)), xOf(v)-1) })
		}
		return json.MarshalFunc(func(v T) ([]byte, error) { return hookFn(id, fmt.Sprint(xOf(v)), xOf(v)-1) })
	case "PT":
		if to {
			return json.MarshalToFunc(func(enc *jsontext.Encoder, p *T) error {
				if p == nil {
					return hookNil(fmt.Sprintf("f%d", id))
				}
				return hookFnTo(id, enc, fmt.Sprint(xOf(*p)), xOf(*p)-1)
			})
		}
		return json.MarshalFunc(func(p *T) ([]byte, error) {
			if p == nil {
				return nil, hookNil(fmt.Sprintf("f%d", id))
			}
			return hookFn(id, fmt.Sprint(xOf(*p)), xOf(*p)-1)
		})
	case "I":
		chk := func(i PooledM) (int, error) {
			p, ok := any(i).(*T)
			if !ok || p == nil {
				// documented: "always provided with a non-nil pointer value if T is an interface"
				return 0, hookNil(fmt.Sprintf("f%d(dynamic type %T)", id, i))
			}
			return i.PoolX(), nil
		}
		if to {
			return json.MarshalToFunc(func(enc *jsontext.Encoder, i PooledM) error {
				x, err := chk(i)
				if err != nil {
					return err
				}
				return hookFnTo(id, enc, fmt.Sprint(x), x-1)
			})
		}
		return json.MarshalFunc(func(i PooledM) ([]byte, error) {
			x, err := chk(i)
			if err != nil {
				return nil, err
			}
			return hookFn(id, fmt.Sprint(x), x-1)
		})
	case "S":
		if to {
			return json.MarshalToFunc(func(enc *jsontext.Encoder, s string) error { return hookFnTo(id, enc, s, 0) })
		}
		return json.MarshalFunc(func(s string) ([]byte, error) { return hookFn(id, s, 0) })
	case "PS":
		if to {
			return json.MarshalToFunc(func(enc *jsontext.Encoder, p *string) error {
				if p == nil {
					return hookNil(fmt.Sprintf("f%d", id))
				}
				return hookFnTo(id, enc, *p, 0)
			})
		}
		return json.MarshalFunc(func(p *string) ([]byte, error) {
			if p == nil {
				return nil, hookNil(fmt.Sprintf("f%d", id))
			}
			return hookFn(id, *p, 0)
		})
	case "other":
		if to {
			return json.MarshalToFunc(func(enc *jsontext.Encoder, o *otherT) error { return hookNil(fmt.Sprintf("f%d(other)", id)) })
		}
		return json.MarshalFunc(func(o otherT) ([]byte, error) { return nil, hookNil(fmt.Sprintf("f%d(other)", id)) })
	}
	panic("harness: unknown marshal func target " + target)
}

// Unmarshal positions.
var uPositions = []string{
	"top", "top-pp", "top-pp-set", "field", "slice", "array", "map-key", "map-val", "map-val-existing",
	"iface-ptr", "iface-val", "iface-named", "ptr", "ptr-set", "ptr-slice", "null-ptr", "any-str", "slice2",
}

func buildU[T any](pos string) any {
	switch pos {
	case "top":
		return new(T)
	case "top-pp":
		return new(*T)
	case "top-pp-set":
		p := new(T)
		return &p
	case "field":
		return new(FieldOf[T])
	case "slice":
		return new([]T)
	case "array":
		return new([2]T)
	case "slice2":
		return new([][]T)
	case "map-key":
		return reflect.New(reflect.MapOf(reflect.TypeFor[T](), reflect.TypeFor[int]())).Interface()
	case "map-val":
		return new(map[keyT]T)
	case "map-val-existing":
		var t T
		reflect.ValueOf(&t).Elem().Field(0).SetInt(9)
		m := map[keyT]T{"k": t}
		return &m
	case "iface-ptr":
		return &FieldOf[any]{F: new(T)}
	case "iface-val":
		var t T
		return &FieldOf[any]{F: t}
	case "iface-named":
		return &FieldOf[PooledU]{F: any(new(T)).(PooledU)}
	case "ptr":
		return new(FieldOf[*T])
	case "ptr-set", "null-ptr":
		return &FieldOf[*T]{F: new(T)}
	case "ptr-slice":
		return new([]*T)
	case "any-str":
		return new([]any)
	}
	panic("harness: unknown unmarshal position " + pos)
}

func mkUFunc[T any](kind, target string, id int) *json.Unmarshalers {
	from := kind == "to"
	nilErr := func() error { return hookNil(fmt.Sprintf("f%d", id)) }
	switch target {
	case "PT":
		if from {
			return json.UnmarshalFromFunc(func(dec *jsontext.Decoder, p *T) error {
				if p == nil {
					return nilErr()
				}
				return hookFnFrom(id, dec, any(p).(PooledU).SetGot)
			})
		}
		return json.UnmarshalFunc(func(b []byte, p *T) error {
			if p == nil {
				return nilErr()
			}
			return hookFnU(id, b, any(p).(PooledU).SetGot)
		})
	case "I":
		chk := func(i PooledU) error {
			if p, ok := any(i).(*T); !ok || p == nil {
				return hookNil(fmt.Sprintf("f%d(dynamic type %T)", id, i))
			}
			return nil
		}
		if from {
			return json.UnmarshalFromFunc(func(dec *jsontext.Decoder, i PooledU) error {
				if err := chk(i); err != nil {
					return err
				}
				return hookFnFrom(id, dec, i.SetGot)
			})
		}
		return json.UnmarshalFunc(func(b []byte, i PooledU) error {
			if err := chk(i); err != nil {
				return err
			}
			return hookFnU(id, b, i.SetGot)
		})
	case "PS":
		if from {
			return json.UnmarshalFromFunc(func(dec *jsontext.Decoder, p *string) error {
				if p == nil {
					return nilErr()
				}
				return hookFnFrom(id, dec, func(s string) { *p = s })
			})
		}
		return json.UnmarshalFunc(func(b []byte, p *string) error {
			if p == nil {
				return nilErr()
			}
			return hookFnU(id, b, func(s string) { *p = s })
		})
	case "other":
		if from {
			return json.UnmarshalFromFunc(func(dec *jsontext.Decoder, o *otherT) error { return hookNil(fmt.Sprintf("f%d(other)", id)) })
		}
		return json.UnmarshalFunc(func(b []byte, o *otherT) error { return hookNil(fmt.Sprintf("f%d(other)", id)) })
	}
	panic("harness: unknown unmarshal func target " + target)
}

package c17

import (
	"fmt"

	"pgregory.net/rapid"

	"verif/harness/cov"
	"verif/harness/rt"
)

// excludeF2: the generators leave out cases whose script pops below its entry
// depth in a position where that is possible (known finding F2), counting them.
var excludeF2 bool

func kindsOf(dir string) []string {
	if dir == "m" {
		return []string{"coder", "bytes", "text", "text"}
	}
	return []string{"coder", "bytes", "text"}
}

// methodVectors enumerates behaviour vectors over the method slots in which
// only the reachable methods vary: the first present method takes every
// behaviour of its kind; if it is the coder method and falls through
// (ErrUnsupported), the next present method takes every behaviour too.
func methodVectors(dir string, recv []int) [][]string {
	kinds := kindsOf(dir)
	base := make([]string, len(kinds))
	for i := range base {
		base[i] = "one"
	}
	var present []int
	for i, r := range recv {
		if r != 0 {
			present = append(present, i)
		}
	}
	if len(present) == 0 {
		return [][]string{base}
	}
	var out [][]string
	first := present[0]
	for _, b := range behsFor(dir, kinds[first]) {
		v := append([]string(nil), base...)
		v[first] = b
		if kinds[first] == "coder" && b == "unsup" && len(present) > 1 {
			nxt := present[1]
			for _, b2 := range behsFor(dir, kinds[nxt]) {
				v2 := append([]string(nil), v...)
				v2[nxt] = b2
				out = append(out, v2)
			}
			continue
		}
		out = append(out, v)
	}
	return out
}

func positionsOf(dir string) []string {
	if dir == "m" {
		return mPositions
	}
	return uPositions
}

func typeNames(dir string) (names []string, recvs [][]int) {
	if dir == "m" {
		for _, e := range mPool {
			names = append(names, e.Name)
			recvs = append(recvs, e.Recv[:])
		}
	} else {
		for _, e := range uPool {
			names = append(names, e.Name)
			recvs = append(recvs, e.Recv[:])
		}
	}
	return
}

func whens(dir, pos string) []int {
	n := 0
	if dir == "m" {
		n, _ = mValues(pos)
	} else {
		n, _ = uValues(pos)
	}
	if n >= 2 {
		return []int{0, 1}
	}
	return []int{0}
}

func insOf(dir, pos string) []string {
	if dir == "m" {
		return []string{""}
	}
	if pos == "map-key" || pos == "any-str" {
		return []string{"str"}
	}
	return []string{"str", "arr", "obj"}
}

// excludeNilList: the generators leave out cases that pass a nil (empty)
// *Marshalers / *Unmarshalers while an `any` value is (un)marshaled: the
// library dereferences the nil pointer (finding F13).
var excludeNilList bool

func involvesAny(pos string) bool {
	switch pos {
	case "iface-val", "iface-ptr", "iface-nilptr", "any-str", "mapany-str":
		return true
	}
	return false
}

func zeroLeaf(c *Case) bool {
	if c.Funcs == nil {
		return false
	}
	var l []leaf
	flatten(c.Funcs, &l)
	return len(l) == 0
}

// nilListClass reports whether the case passes an empty list and touches `any`
// (in itself or in the neighbour case that Run executes with it).
func nilListClass(c *Case) bool {
	return zeroLeaf(c) && (involvesAny(c.Pos) || involvesAny(neighbour(*c).Pos))
}

// skipF2 reports whether the case belongs to the excluded F2 class.
func skipF2(c *Case) bool {
	if !excludeF2 {
		return false
	}
	var e expect
	if c.Dir == "m" {
		e = modelMarshal(c, findM(c.Type).Recv)
	} else {
		e, _ = modelUnmarshal(c, findU(c.Type).Recv)
	}
	if !e.pop {
		return false
	}
	switch c.Pos {
	case "top-val", "top-ptr", "top", "top-pp", "top-pp-set":
		return false // nothing to pop at the top level: the script fails by itself
	}
	return true
}

type enumCtl struct {
	e        *rt.Env
	idx      int64
	total    int64
	complete bool
	yield    func(Case) bool
}

// emit yields the case if it belongs to this shard; false = stop.
func (ec *enumCtl) emit(c Case) bool {
	ec.idx++
	if !ec.e.Mine(ec.idx) {
		return true
	}
	if skipF2(&c) {
		ec.e.Rec.Excluded(f2Classifier)
		return true
	}
	if excludeNilList && nilListClass(&c) {
		ec.e.Rec.Excluded(nilListClassifier)
		return true
	}
	ec.total++
	if !ec.yield(c) {
		ec.complete = false
		return false
	}
	return true
}

// enumMethods: every pool type x position x value index x run order x
// behaviour vector of the reachable methods (no function list).
func enumMethods(e *rt.Env, dir string, yield func(Case) bool) {
	ec := &enumCtl{e: e, complete: true, yield: yield}
	names, recvs := typeNames(dir)
	func() {
		for ti, name := range names {
			vecs := methodVectors(dir, recvs[ti])
			for _, pos := range positionsOf(dir) {
				for _, in := range insOf(dir, pos) {
					for _, w := range whens(dir, pos) {
						for order := 0; order < 2; order++ {
							for _, v := range vecs {
								if !ec.emit(Case{Dir: dir, Type: name, Pos: pos, Meth: v, When: w, Order: order, In: in}) {
									return
								}
							}
						}
					}
				}
			}
		}
	}()
	e.Rec.AddPart(cov.Part{Name: fmt.Sprintf("%s: all %d pool types x %d positions x value index x 2 run orders x behaviours of the reachable methods", dir, len(names), len(positionsOf(dir))), Size: ec.total, Complete: ec.complete})
}

type leafSpec struct{ kind, target string }

func leafSpecs(dir string, str bool) []leafSpec {
	targets := []string{"T", "PT", "I"}
	if dir == "u" {
		targets = []string{"PT", "I"}
	}
	if str {
		targets = []string{"S", "PS"}
		if dir == "u" {
			targets = []string{"PS"}
		}
	}
	var out []leafSpec
	for _, k := range []string{"func", "to"} {
		for _, t := range targets {
			out = append(out, leafSpec{k, t})
		}
	}
	return out
}

func lf(s leafSpec, beh string) Node { return Node{Kind: s.kind, Target: s.target, Beh: beh} }

// shapes wraps 0, 1 or 2 leaves into the supported list shapes.
func shapes(leaves []Node) []*Node {
	j := func(ns ...Node) Node { return Node{IsJoin: true, Join: ns} }
	switch len(leaves) {
	case 0:
		e := j()
		nl := Node{Nil: true}
		return []*Node{nil, &e, &nl}
	case 1:
		a := leaves[0]
		s1 := j(a)
		s2 := j(Node{Nil: true}, j(j(a)), j())
		return []*Node{&a, &s1, &s2}
	default:
		a, b := leaves[0], leaves[1]
		s0 := j(a, b)
		s1 := j(a, j(b))
		s2 := j(j(j(a)), Node{Nil: true}, j(j(), j(b)))
		return []*Node{&s0, &s1, &s2}
	}
}

func leafBehs(dir string, s leafSpec) []string {
	if s.kind == "to" {
		return behsFor(dir, "coder")
	}
	return behsFor(dir, "bytes")
}

// funcLists enumerates lists of <=2 functions with the behaviours of the
// reachable ones varied.
func funcLists(dir string, str bool) [][]Node {
	specs := leafSpecs(dir, str)
	out := [][]Node{nil}
	for _, a := range specs {
		for _, ba := range leafBehs(dir, a) {
			out = append(out, []Node{lf(a, ba)})
		}
	}
	for _, a := range specs {
		for _, b := range specs {
			for _, ba := range leafBehs(dir, a) {
				if a.kind == "to" && ba == "unsup" {
					for _, bb := range leafBehs(dir, b) {
						out = append(out, []Node{lf(a, ba), lf(b, bb)})
					}
				} else {
					out = append(out, []Node{lf(a, ba), lf(b, "one")})
				}
			}
		}
	}
	return out
}

// enumFuncs: function lists of length <=2 (every kind x target, behaviours of
// the reachable functions, 3 join shapes) x pool types x positions.
func enumFuncs(e *rt.Env, dir string, yield func(Case) bool) {
	ec := &enumCtl{e: e, complete: true, yield: yield}
	names, _ := typeNames(dir)
	lists := funcLists(dir, false)
	strLists := funcLists(dir, true)
	// the quick tier takes every stride-th type (rotating with the seed), thorough all.
	stride := 1
	if !e.Thorough() {
		stride = 9
		if dir == "u" {
			stride = 3
		}
	}
	off := e.Offset("funcs-"+dir, stride)
	ntypes := 0
	func() {
		for ti, name := range names {
			if ti%stride != off {
				continue
			}
			ntypes++
			for _, pos := range positionsOf(dir) {
				ins := insOf(dir, pos)
				ls := lists
				if _, str := mValues(pos); str || pos == "any-str" {
					ls = strLists // functions on string / *string for strings held in `any`
				}
				for li, l := range ls {
					for si, sh := range shapes(l) {
						// value index, run order and input kind rotate instead of multiplying
						ws := whens(dir, pos)
						w := ws[(li+si)%len(ws)]
						in := ins[(li+si+ti)%len(ins)]
						for order := 0; order < 2; order++ {
							if !ec.emit(Case{Dir: dir, Type: name, Pos: pos, Funcs: sh, When: w, Order: order, In: in}) {
								return
							}
						}
					}
				}
			}
		}
	}()
	e.Rec.AddPart(cov.Part{Name: fmt.Sprintf("%s: function lists of length <=2 (%d lists x 3 join shapes) x %d pool types x %d positions x 2 run orders", dir, len(lists), ntypes, len(positionsOf(dir))), Size: ec.total, Complete: ec.complete && stride == 1, Stride: int64(stride)})
}

// ---- rapid ---------------------------------------------------------------

func drawBeh(t *rapid.T, dir, kind, label string) string {
	list := behsFor(dir, kind)
	// weight fall-through so that chains go deep
	if kind == "coder" && rapid.IntRange(0, 9).Draw(t, label+"-fall") < 5 {
		return "unsup"
	}
	if rapid.IntRange(0, 9).Draw(t, label+"-ok") < 3 {
		return "one"
	}
	b := rapid.SampledFrom(list).Draw(t, label)
	if excludeF2 && isPop(b) {
		rec.Excluded(f2Classifier)
		return "partial"
	}
	return b
}

func drawNode(t *rapid.T, dir string, depth int, budget *int) Node {
	r := rapid.IntRange(0, 19).Draw(t, "node")
	switch {
	case r == 0:
		return Node{Nil: true}
	case r <= 6 && depth < 3:
		n := rapid.IntRange(0, 3).Draw(t, "join-len")
		j := Node{IsJoin: true}
		for i := 0; i < n && *budget > 0; i++ {
			j.Join = append(j.Join, drawNode(t, dir, depth+1, budget))
		}
		return j
	}
	*budget--
	targets := []string{"T", "PT", "I", "T", "PT", "I", "S", "PS", "other"}
	if dir == "u" {
		targets = []string{"PT", "I", "PT", "I", "PS", "other"}
	}
	n := Node{Kind: rapid.SampledFrom([]string{"func", "to", "to"}).Draw(t, "kind"), Target: rapid.SampledFrom(targets).Draw(t, "target")}
	k := "bytes"
	if n.Kind == "to" {
		k = "coder"
	}
	n.Beh = drawBeh(t, dir, k, "leaf-beh")
	return n
}

func genCase(dir string) func(t *rapid.T) Case {
	return func(t *rapid.T) Case {
		names, _ := typeNames(dir)
		c := Case{Dir: dir}
		c.Type = rapid.SampledFrom(names).Draw(t, "type")
		c.Pos = rapid.SampledFrom(positionsOf(dir)).Draw(t, "pos")
		for i, k := range kindsOf(dir) {
			c.Meth = append(c.Meth, drawBeh(t, dir, k, fmt.Sprintf("meth%d", i)))
		}
		if rapid.IntRange(0, 9).Draw(t, "has-funcs") > 0 {
			budget := 6
			top := Node{IsJoin: true}
			n := rapid.IntRange(0, 8).Draw(t, "top-len")/2 + 1
			if rapid.IntRange(0, 19).Draw(t, "empty-list") == 0 {
				n = 0
			}
			for i := 0; i < n && budget > 0; i++ {
				top.Join = append(top.Join, drawNode(t, dir, 1, &budget))
			}
			if len(top.Join) == 1 && rapid.Bool().Draw(t, "bare") {
				c.Funcs = &top.Join[0]
			} else {
				c.Funcs = &top
			}
		}
		c.When = rapid.IntRange(0, 1).Draw(t, "when")
		c.Order = rapid.IntRange(0, 1).Draw(t, "order")
		if dir == "u" {
			c.In = rapid.SampledFrom([]string{"str", "str", "arr", "obj"}).Draw(t, "in")
		}
		nopts := rapid.IntRange(0, 3).Draw(t, "nopts")
		for i := 0; i < nopts; i++ {
			bo := boolOpts[rapid.IntRange(0, len(boolOpts)-1).Draw(t, "opt")]
			c.Opts = append(c.Opts, fmt.Sprintf("%s=%v", bo.name, rapid.Bool().Draw(t, "optval")))
		}
		c, _ = normalise(c)
		if excludeNilList && nilListClass(&c) {
			rec.Excluded(nilListClassifier)
			c.Funcs = nil
		}
		if skipF2(&c) { // cannot happen (drawBeh substitutes), kept as a guard
			rec.Excluded(f2Classifier)
			c.Meth[0] = "partial"
		}
		return c
	}
}

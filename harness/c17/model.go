package c17

import (
	"fmt"
	"strings"
)

// The oracle: a precedence model transcribed from the doc comments of
// json.Marshal / json.Unmarshal, Marshaler(To) / Unmarshaler(From),
// MarshalFunc / MarshalToFunc / UnmarshalFunc / UnmarshalFromFunc and
// JoinMarshalers. It never looks at the library.
//
//  1. type-specific functions of the With(Un)marshalers option that match the
//     value type, in (flattened) list order; a *To/*From function that returns
//     ErrUnsupported without having used the coder passes on to the next
//     applicable function; MarshalFunc/UnmarshalFunc "may not return
//     ErrUnsupported" (it is an ordinary error, so the chain ends there);
//  2. MarshalerTo / UnmarshalerFrom (same ErrUnsupported rule);
//  3. Marshaler / Unmarshaler;  4. TextAppender;  5. TextMarshaler / TextUnmarshaler;
//  6. the default representation of the type.
//
// Pointer-receiver methods and functions on *T count for every non-nil value
// whether addressable or not; nothing is called for a nil pointer.

type cand struct {
	id   string
	kind string // "coder" | "bytes" | "text"
	beh  string
	ptr  bool // can mutate the destination (unmarshal): pointer receiver or *T / interface function
}

type expect struct {
	log     []string
	err     bool
	pop     bool // the failure is demanded because of a pop-* script (finding F2 class)
	out     string
	vals    []uval
	nonconf bool     // a non-conforming behaviour was reached
	ncand   int      // applicable representations for one value (default included)
	winners []string // per value: id of the representation used ("default", "error")
	behs    []string // behaviours reached
	falls   int      // fall-throughs taken
}

type uval struct {
	isStr  bool
	str    string // any-str positions
	x      int    // checked only when checkX
	checkX bool
	got    string
}

func flatten(n *Node, out *[]leaf) {
	if n == nil || n.Nil {
		return
	}
	if n.IsJoin {
		for i := range n.Join {
			flatten(&n.Join[i], out)
		}
		return
	}
	*out = append(*out, leaf{n.Kind, n.Target, n.Beh})
}

func isPop(beh string) bool { return beh == "pop-repush" || beh == "pop-unsup" || beh == "pop2-repush" }

var conformingCoder = map[string]bool{"": true, "one": true, "one-arr": true, "one-tok": true, "unsup": true, "reset": true, "options": true, "nested": true, "nested-ok": true, "nested-ws": true}
var conformingBytes = map[string]bool{"": true, "one": true, "one-arr": true}
var conformingText = map[string]bool{"": true, "one": true, "empty": true}

// chain lists the applicable candidates for a pool value (str=false) or for
// a plain string held in an `any` (str=true), in documented order.
func chain(c *Case, leaves []leaf, recv []int, str bool) []cand {
	var out []cand
	for i, l := range leaves {
		match := false
		switch l.target {
		case "T", "PT", "I":
			match = !str
		case "S", "PS":
			match = str
		}
		if !match {
			continue
		}
		k := "bytes"
		if l.kind == "to" {
			k = "coder"
		}
		out = append(out, cand{id: fmt.Sprintf("f%d", i), kind: k, beh: l.beh, ptr: l.target != "T" && l.target != "S"})
	}
	if str {
		return out
	}
	beh := func(i int) string {
		if i < len(c.Meth) {
			return c.Meth[i]
		}
		return ""
	}
	if c.Dir == "m" {
		ids := []string{"To", "M", "A", "T"}
		kinds := []string{"coder", "bytes", "text", "text"}
		for i := 0; i < 4; i++ {
			if recv[i] != 0 {
				out = append(out, cand{id: ids[i], kind: kinds[i], beh: beh(i), ptr: recv[i] == 2})
			}
		}
	} else {
		ids := []string{"From", "U", "UT"}
		kinds := []string{"coder", "bytes", "text"}
		for i := 0; i < 3; i++ {
			if recv[i] != 0 {
				out = append(out, cand{id: ids[i], kind: kinds[i], beh: beh(i), ptr: recv[i] == 2})
			}
		}
	}
	return out
}

func mValues(pos string) (n int, str bool) {
	switch pos {
	case "slice", "array-val", "array-ptr", "slice2", "imap-val":
		return 2, false
	case "nil-ptr", "top-nil", "iface-nilptr":
		return 0, false
	case "any-str", "mapany-str":
		return 1, true
	}
	return 1, false
}

func mWrap(pos string, reps []string) string {
	switch pos {
	case "top-val", "top-ptr":
		return reps[0]
	case "field-val", "field-ptr":
		return `{"F":` + reps[0] + `}`
	case "slice", "array-val", "array-ptr":
		return "[" + reps[0] + "," + reps[1] + "]"
	case "slice2":
		return "[[" + reps[0] + "," + reps[1] + "]]"
	case "imap-val":
		return `{"1":` + reps[0] + `,"2":` + reps[1] + `}` // Deterministic is forced at this position
	case "map-key":
		return "{" + reps[0] + ":0}"
	case "map-val":
		return `{"k":` + reps[0] + `}`
	case "mapany-str":
		return "{" + reps[0] + ":" + reps[1] + "}"
	case "iface-val", "iface-ptr", "iface-named", "ptr", "any-str":
		return "[" + reps[0] + "]"
	case "nil-ptr", "iface-nilptr":
		return "[null]"
	case "top-nil":
		return "null"
	}
	panic("harness: mWrap " + pos)
}

type mItem struct {
	label string
	idx   int
	key   bool // sits at an object-name position: must encode as a JSON string
	str   bool // plain string (held in `any` or a string map key), not a pool value
}

func mItems(pos string) []mItem {
	switch pos {
	case "slice", "array-val", "array-ptr", "slice2", "imap-val":
		return []mItem{{label: "1", idx: 0}, {label: "2", idx: 1}}
	case "nil-ptr", "top-nil", "iface-nilptr":
		return nil
	case "any-str":
		return []mItem{{label: "s", str: true}}
	case "mapany-str":
		// "each Go map key and value is recursively encoded": functions on
		// string apply to the key "k" as well as to the value "s".
		return []mItem{{label: "k", str: true, key: true}, {label: "s", str: true}}
	case "map-key":
		return []mItem{{label: "1", key: true}}
	}
	return []mItem{{label: "1"}}
}

func modelMarshal(c *Case, recv [4]int) expect {
	var e expect
	var leaves []leaf
	flatten(c.Funcs, &leaves)
	items := mItems(c.Pos)
	var reps []string
	for n, it := range items {
		ch := chain(c, leaves, recv[:], it.str)
		if n == 0 {
			e.ncand = len(ch) + 1
		}
		idx, label, key := it.idx, it.label, it.key
		rep, ok := "", false
		winner := "default"
		failed := false
	walk:
		for _, cd := range ch {
			name := cd.id + "#" + label
			e.log = append(e.log, name)
			beh := cd.beh
			if idx != c.When || beh == "" {
				beh = "one"
			}
			e.behs = append(e.behs, cd.kind+":"+beh)
			q := `"` + name + `"`
			switch cd.kind {
			case "coder":
				if !conformingCoder[beh] {
					e.nonconf = true
				}
				switch beh {
				case "one", "reset", "options", "nested-ok", "nested-ws":
					rep, ok, winner = q, true, cd.id
					break walk
				case "one-arr":
					if key { // "The Go map key must encode as a JSON string"
						failed = true
					} else {
						rep, ok = "["+q+"]", true
					}
					winner = cd.id
					break walk
				case "unsup":
					e.falls++
					continue
				case "pop-repush", "pop-unsup", "pop2-repush":
					e.pop = true
					failed, winner = true, cd.id
					break walk
				default: // zero two partial unsup-after err err-after
					failed, winner = true, cd.id
					break walk
				}
			case "bytes":
				if !conformingBytes[beh] {
					e.nonconf = true
				}
				switch beh {
				case "one":
					rep, ok = q, true
				case "one-arr":
					if key {
						failed = true
					} else {
						rep, ok = "["+q+"]", true
					}
				default: // zero two partial invalid unsup err
					failed = true
				}
				winner = cd.id
				break walk
			case "text":
				if !conformingText[beh] {
					e.nonconf = true
				}
				switch beh {
				case "one":
					rep, ok = q, true
				case "empty":
					rep, ok = `""`, true
				default: // unsup err
					failed = true
				}
				winner = cd.id
				break walk
			}
		}
		if !ok && !failed {
			// default representation
			switch {
			case it.str:
				rep, ok = `"`+label+`"`, true
			case key:
				failed = true // a struct does not encode as a JSON string
			default:
				rep, ok = fmt.Sprintf(`{"X":%d}`, idx+1), true
			}
		}
		if failed {
			e.err = true
			e.winners = append(e.winners, "error:"+winner)
			return e
		}
		e.winners = append(e.winners, winner)
		reps = append(reps, rep)
	}
	e.out = mWrap(c.Pos, reps)
	return e
}

// ---- unmarshal ------------------------------------------------------------

func valText(in string, idx int) string {
	switch in {
	case "arr":
		return fmt.Sprintf(`["in%d"]`, idx+1)
	case "obj":
		return fmt.Sprintf(`{"X":%d}`, idx+1)
	}
	return fmt.Sprintf(`"in%d"`, idx+1)
}

func uValues(pos string) (n int, str bool) {
	switch pos {
	case "slice", "array", "slice2":
		return 2, false
	case "null-ptr":
		return 0, false
	case "any-str":
		return 1, true
	}
	return 1, false
}

// uDoc builds the input text. With popAt >= 0 it is the crafted two-value text
// "<container closed right after value popAt><whole container again>" that a
// pop-* script needs in order to leave and re-enter its container.
func uDoc(pos, in string, popAt int) string {
	v0, v1 := valText(in, 0), valText(in, 1)
	var full, prefix string
	switch pos {
	case "top", "top-pp", "top-pp-set":
		return v0
	case "field", "iface-ptr", "iface-val", "iface-named", "ptr", "ptr-set":
		full = `{"F":` + v0 + `}`
		prefix = full
	case "null-ptr":
		return `{"F":null}`
	case "slice", "array":
		full = "[" + v0 + "," + v1 + "]"
		prefix = full
		if popAt == 0 {
			prefix = "[" + v0 + "]"
		}
	case "slice2":
		full = "[[" + v0 + "," + v1 + "]]"
		prefix = full
		if popAt == 0 {
			prefix = "[[" + v0 + "]]"
		}
	case "map-key":
		full = "{" + v0 + ":0}"
		prefix = full
	case "map-val", "map-val-existing":
		full = `{"k":` + v0 + `}`
		prefix = full
	case "ptr-slice", "any-str":
		full = "[" + v0 + "]"
		prefix = full
	default:
		panic("harness: uDoc " + pos)
	}
	if popAt >= 0 {
		return prefix + full
	}
	return full
}

// popReached reports whether the chain for value number c.When reaches a pop-*
// behaviour (then the crafted input is used). It mirrors the model walk.
func popReached(c *Case, ch []cand) bool {
	for _, cd := range ch {
		beh := cd.beh
		switch {
		case cd.kind == "text":
			return false
		case cd.kind == "bytes":
			return false
		case isPop(beh):
			return true
		case beh == "unsup":
			continue
		default:
			return false
		}
	}
	return false
}

func modelUnmarshal(c *Case, recv [3]int) (e expect, doc string) {
	var leaves []leaf
	flatten(c.Funcs, &leaves)
	n, str := uValues(c.Pos)
	ch := chain(c, leaves, recv[:], str)
	e.ncand = len(ch) + 1
	in := c.In
	popAt := -1
	if n > 0 && c.When < n && popReached(c, ch) && !strings.HasPrefix(c.Pos, "top") {
		popAt = c.When
	}
	doc = uDoc(c.Pos, in, popAt)
	key := c.Pos == "map-key"
	for idx := 0; idx < n; idx++ {
		text := valText(in, idx)
		var v uval
		v.isStr = str
		winner := "default"
		ok, failed := false, false
	walk:
		for _, cd := range ch {
			if cd.kind == "text" && in != "str" {
				// "This fails with a SemanticError if the input is not a JSON string."
				failed, winner = true, cd.id
				break walk
			}
			e.log = append(e.log, fmt.Sprintf("%s@%d", cd.id, idx))
			beh := cd.beh
			if idx != c.When || beh == "" {
				beh = "one"
			}
			e.behs = append(e.behs, cd.kind+":"+beh)
			set := func(s string) {
				if cd.ptr {
					v.got = s
					v.str = s
				}
			}
			switch cd.kind {
			case "coder":
				if beh == "open-all" {
					beh = "partial" // the same verdict: one token is a whole value only for a string
				}
				if !conformingCoder[beh] && !(beh == "partial" && in == "str") {
					e.nonconf = true
				}
				switch beh {
				case "one", "reset", "options", "nested":
					set(cd.id + ":" + text)
					ok, winner = true, cd.id
					break walk
				case "one-tok":
					set(cd.id + ":tok")
					ok, winner = true, cd.id
					break walk
				case "partial":
					if in == "str" { // one token is the whole value
						set(cd.id + ":partial")
						ok = true
					} else {
						failed = true
					}
					winner = cd.id
					break walk
				case "unsup":
					e.falls++
					continue
				case "pop-repush", "pop-unsup", "pop2-repush":
					e.pop = true
					failed, winner = true, cd.id
					break walk
				default: // zero two unsup-after err err-after
					failed, winner = true, cd.id
					break walk
				}
			case "bytes", "text":
				if beh != "one" {
					e.nonconf = true
					failed = true
				} else {
					t := text
					if cd.kind == "text" {
						t = strings.Trim(text, `"`)
					}
					set(cd.id + ":" + t)
					ok = true
				}
				winner = cd.id
				break walk
			}
		}
		if !ok && !failed {
			switch {
			case str:
				v.str = strings.Trim(text, `"`)
				ok = true
			case key:
				failed = true // name is a JSON string; a struct is not decoded from a string
			case in == "obj":
				v.x, v.checkX = idx+1, true
				ok = true
			default:
				failed = true // "If the input JSON kind is not handled by the current Go value type ... SemanticError"
			}
		}
		if failed {
			e.err = true
			e.winners = append(e.winners, "error:"+winner)
			return e, doc
		}
		e.winners = append(e.winners, winner)
		e.vals = append(e.vals, v)
	}
	return e, doc
}

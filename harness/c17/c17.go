// Package c17 decides property C17: user-defined (un)marshalers are
// dispatched in the documented precedence order and policed as documented.
package c17

import (
	"bytes"
	"encoding/json"
	"fmt"
	"reflect"
	"slices"
	"strings"

	jsonv2 "github.com/go-json-experiment/json"

	"verif/harness/cov"
	"verif/harness/rt"
)

var rec = cov.New()

// Node describes a *Marshalers / *Unmarshalers value: a leaf function, a nil
// pointer, or a Join of nodes.
type Node struct {
	IsJoin bool   `json:"is_join,omitempty"`
	Join   []Node `json:"join,omitempty"`
	Nil    bool   `json:"nil,omitempty"`
	Kind   string `json:"kind,omitempty"`   // "func" (MarshalFunc/UnmarshalFunc) | "to" (MarshalToFunc/UnmarshalFromFunc)
	Target string `json:"target,omitempty"` // T | PT (*T) | I (interface implemented by *T) | S (string) | PS (*string) | other
	Beh    string `json:"beh,omitempty"`
}

// Case is one scripted call of json.Marshal ("m") or json.Unmarshal ("u").
type Case struct {
	Dir   string   `json:"dir"`
	Type  string   `json:"type"`            // pool type name, e.g. M0212 / U021
	Pos   string   `json:"pos"`             // where the pool value sits
	Meth  []string `json:"meth"`            // behaviour of each method slot (To,M,A,T | From,U,UT)
	Funcs *Node    `json:"funcs,omitempty"` // With(Un)marshalers argument; absent = option not passed
	When  int      `json:"when"`            // index of the value on which the behaviours apply (others conform)
	Order int      `json:"order"`           // 0: case, neighbour, case   1: neighbour, case, case
	Opts  []string `json:"opts,omitempty"`  // caller options "Name=true|false"
	In    string   `json:"in,omitempty"`    // unmarshal: kind of the input value: str | arr | obj
}

const f2Classifier = "user-code-pops-below-entry"
const nilListClassifier = "nil-arshalers-deref-with-any"

// classifyPanic wraps a library panic as the known finding F13 when (and only
// when) the case passes an empty function list and touches an `any` value and
// the panic is a nil dereference.
func classifyPanic(c *Case, p *rt.PanicErr, err error) error {
	if nilListClass(c) && strings.Contains(fmt.Sprint(p.Val), "nil pointer dereference") {
		return rt.Known(nilListClassifier, err)
	}
	return err
}

func findM(name string) *mEntry {
	for _, e := range mPool {
		if e.Name == name {
			return e
		}
	}
	return nil
}

func findU(name string) *uEntry {
	for _, e := range uPool {
		if e.Name == name {
			return e
		}
	}
	return nil
}

var coderBehs = []string{"one", "one-arr", "zero", "two", "partial", "pop-repush", "pop-unsup", "pop2-repush", "unsup", "unsup-after", "unsup-open", "err", "err-after", "reset", "options", "nested-ok", "nested-ws"}
var coderBehsU = []string{"one", "one-tok", "zero", "two", "partial", "open-all", "pop-repush", "pop-unsup", "pop2-repush", "unsup", "unsup-after", "unsup-open", "err", "err-after", "reset", "options", "nested"}
var bytesBehsM = []string{"one", "one-arr", "zero", "two", "partial", "invalid", "unsup", "err"}
var textBehsM = []string{"one", "empty", "unsup", "err"}
var bytesBehsU = []string{"one", "unsup", "err"}

func behsFor(dir, kind string) []string {
	switch {
	case dir == "m" && kind == "coder":
		return coderBehs
	case dir == "m" && kind == "bytes":
		return bytesBehsM
	case dir == "m":
		return textBehsM
	case kind == "coder":
		return coderBehsU
	}
	return bytesBehsU
}

func normBeh(dir, kind, b string) string {
	if slices.Contains(behsFor(dir, kind), b) {
		return b
	}
	return "one"
}

func normNode(dir string, n *Node) {
	if n == nil {
		return
	}
	if n.IsJoin {
		for i := range n.Join {
			normNode(dir, &n.Join[i])
		}
		return
	}
	if n.Nil {
		return
	}
	if n.Kind != "to" {
		n.Kind = "func"
	}
	targets := []string{"T", "PT", "I", "S", "PS", "other"}
	if dir == "u" {
		targets = []string{"PT", "I", "PS", "other"}
	}
	if !slices.Contains(targets, n.Target) {
		n.Target = "PT"
	}
	k := "bytes"
	if n.Kind == "to" {
		k = "coder"
	}
	n.Beh = normBeh(dir, k, n.Beh)
}

func cloneNode(n Node) Node {
	if n.Join != nil {
		j := make([]Node, len(n.Join))
		for i := range n.Join {
			j[i] = cloneNode(n.Join[i])
		}
		n.Join = j
	}
	return n
}

// normalise maps any decodable Case onto a well-formed one (so that replay
// files and shrunk cases are always executable).
func normalise(c Case) (Case, error) {
	c.Meth = slices.Clone(c.Meth)
	if c.Funcs != nil {
		cp := cloneNode(*c.Funcs)
		c.Funcs = &cp
	}
	switch c.Dir {
	case "m":
		if findM(c.Type) == nil {
			return c, fmt.Errorf("unknown marshal pool type %q", c.Type)
		}
		if !slices.Contains(mPositions, c.Pos) {
			return c, fmt.Errorf("unknown marshal position %q", c.Pos)
		}
		for len(c.Meth) < 4 {
			c.Meth = append(c.Meth, "one")
		}
		c.Meth = c.Meth[:4]
		kinds := []string{"coder", "bytes", "text", "text"}
		for i := range c.Meth {
			c.Meth[i] = normBeh("m", kinds[i], c.Meth[i])
		}
		if n, _ := mValues(c.Pos); n < 2 || c.When != 1 {
			c.When = 0
		}
		c.In = ""
	case "u":
		if findU(c.Type) == nil {
			return c, fmt.Errorf("unknown unmarshal pool type %q", c.Type)
		}
		if !slices.Contains(uPositions, c.Pos) {
			return c, fmt.Errorf("unknown unmarshal position %q", c.Pos)
		}
		for len(c.Meth) < 3 {
			c.Meth = append(c.Meth, "one")
		}
		c.Meth = c.Meth[:3]
		kinds := []string{"coder", "bytes", "text"}
		for i := range c.Meth {
			c.Meth[i] = normBeh("u", kinds[i], c.Meth[i])
		}
		if n, _ := uValues(c.Pos); n < 2 || c.When != 1 {
			c.When = 0
		}
		if c.In != "arr" && c.In != "obj" {
			c.In = "str"
		}
		if c.Pos == "map-key" || c.Pos == "any-str" {
			c.In = "str" // an object name is a string; any-str is about strings held in `any`
		}
	default:
		return c, fmt.Errorf("unknown direction %q", c.Dir)
	}
	normNode(c.Dir, c.Funcs)
	if c.Order != 1 {
		c.Order = 0
	}
	var opts []string
	for _, o := range c.Opts {
		name, val, _ := strings.Cut(o, "=")
		for _, bo := range boolOpts {
			if bo.name == name && (val == "true" || val == "false") {
				opts = append(opts, o)
			}
		}
	}
	if c.Pos == "imap-val" {
		// a two-entry map: only Deterministic fixes the member order of the output
		opts = slices.DeleteFunc(opts, func(o string) bool { return strings.HasPrefix(o, "Deterministic=") })
		opts = append(opts, "Deterministic=true")
	}
	c.Opts = opts
	return c, nil
}

// neighbour returns a different case on the same type and the same function
// list: another position (and the other value index).
func neighbour(c Case) Case {
	n := c
	list := mPositions
	if c.Dir == "u" {
		list = uPositions
	}
	i := slices.Index(list, c.Pos)
	n.Pos = list[(i+5)%len(list)]
	n.When = 1 - c.When
	n, _ = normalise(n)
	return n
}

type result struct {
	out    []byte
	err    error
	panicv *rt.PanicErr
	log    []string
	flags  []string
	popped bool
	resets int
	optsOK int
	root   any
	doc    string
}

func buildMs(ent *mEntry, n *Node, ctr *int) *jsonv2.Marshalers {
	if n == nil || n.Nil {
		return nil
	}
	if n.IsJoin {
		parts := make([]*jsonv2.Marshalers, len(n.Join))
		for i := range n.Join {
			parts[i] = buildMs(ent, &n.Join[i], ctr)
		}
		return jsonv2.JoinMarshalers(parts...)
	}
	id := *ctr
	*ctr++
	return ent.Func(n.Kind, n.Target, id)
}

func buildUn(ent *uEntry, n *Node, ctr *int) *jsonv2.Unmarshalers {
	if n == nil || n.Nil {
		return nil
	}
	if n.IsJoin {
		parts := make([]*jsonv2.Unmarshalers, len(n.Join))
		for i := range n.Join {
			parts[i] = buildUn(ent, &n.Join[i], ctr)
		}
		return jsonv2.JoinUnmarshalers(parts...)
	}
	id := *ctr
	*ctr++
	return ent.Func(n.Kind, n.Target, id)
}

// session holds what is shared by the executions of one Run: the option
// values (in particular the *Marshalers with its per-type cache).
type session struct {
	opts   []jsonv2.Options
	joined jsonv2.Options
	ms     *jsonv2.Marshalers
	us     *jsonv2.Unmarshalers
	leaves []leaf
}

func newSession(c *Case) *session {
	s := &session{}
	flatten(c.Funcs, &s.leaves)
	s.opts = buildOpts(c.Opts)
	ctr := 0
	if c.Dir == "m" {
		s.ms = buildMs(findM(c.Type), c.Funcs, &ctr)
		if c.Funcs != nil {
			s.opts = append(s.opts, jsonv2.WithMarshalers(s.ms))
		}
	} else {
		s.us = buildUn(findU(c.Type), c.Funcs, &ctr)
		if c.Funcs != nil {
			s.opts = append(s.opts, jsonv2.WithUnmarshalers(s.us))
		}
	}
	s.joined = jsonv2.JoinOptions(s.opts...)
	return s
}

func exec(c *Case, s *session) result {
	st := &state{c: c, leaves: s.leaves, callerOpts: s.joined, marshalers: s.ms, unmarshals: s.us}
	cur = st
	var r result
	if c.Dir == "m" {
		v := findM(c.Type).Build(c.Pos)
		r.panicv = rt.Guard(func() { r.out, r.err = jsonv2.Marshal(v, s.opts...) })
		if r.panicv == nil && r.err == nil {
			// the same call through a writer delivers the same bytes (user code
			// that makes nested calls on the encoder must not change what is flushed)
			st2 := &state{c: c, leaves: s.leaves, callerOpts: s.joined, marshalers: s.ms, unmarshals: s.us}
			cur = st2
			var bb bytes.Buffer
			var werr error
			v2 := findM(c.Type).Build(c.Pos)
			if p := rt.Guard(func() { werr = jsonv2.MarshalWrite(&bb, v2, s.opts...) }); p == nil && werr == nil && !bytes.Equal(bb.Bytes(), r.out) {
				st.flag(fmt.Sprintf("MarshalWrite delivered %q where Marshal returns %q", bb.Bytes(), r.out))
			}
			cur = st
		}
	} else {
		root := findU(c.Type).Build(c.Pos)
		_, doc := modelUnmarshal(c, findU(c.Type).Recv)
		r.panicv = rt.Guard(func() { r.err = jsonv2.Unmarshal([]byte(doc), root, s.opts...) })
		r.root = root
		r.doc = doc
	}
	cur = nil
	r.log, r.flags, r.popped, r.resets, r.optsOK = st.log, st.flags, st.popped, st.resets, st.optsOK
	return r
}

func collect(v reflect.Value, want reflect.Type, wantStr bool, out *[]reflect.Value) {
	if !v.IsValid() {
		return
	}
	if !wantStr && v.Type() == want {
		*out = append(*out, v)
		return
	}
	switch v.Kind() {
	case reflect.String:
		if wantStr {
			*out = append(*out, v)
		}
	case reflect.Pointer, reflect.Interface:
		if !v.IsNil() {
			collect(v.Elem(), want, wantStr, out)
		}
	case reflect.Struct:
		for i := 0; i < v.NumField(); i++ {
			collect(v.Field(i), want, wantStr, out)
		}
	case reflect.Slice, reflect.Array:
		for i := 0; i < v.Len(); i++ {
			collect(v.Index(i), want, wantStr, out)
		}
	case reflect.Map:
		for it := v.MapRange(); it.Next(); {
			collect(it.Key(), want, wantStr, out)
			collect(it.Value(), want, wantStr, out)
		}
	}
}

// verify compares one execution with the model.
func verify(c *Case, e *expect, r *result, tag string) error {
	desc := func() string {
		raw, _ := json.Marshal(c)
		return fmt.Sprintf("[%s] case %s", tag, raw)
	}
	if r.panicv != nil {
		return classifyPanic(c, r.panicv, fmt.Errorf("%s: library call panicked: %v", desc(), r.panicv))
	}
	if len(r.flags) > 0 {
		return fmt.Errorf("%s: %s (call log %v)", desc(), strings.Join(r.flags, "; "), r.log)
	}
	// call log: the expected sequence must be a prefix; on success it must be the whole log.
	if !logAgrees(c, e, r) {
		return fmt.Errorf("%s: call log %v, documented order demands %v (err=%v out=%q)", desc(), r.log, e.log, r.err, r.out)
	}
	if e.err {
		if r.err == nil {
			err := fmt.Errorf("%s: expected a non-nil error (%v) but got nil; out=%q input=%q call log %v", desc(), e.winners, r.out, r.doc, r.log)
			if e.pop && r.popped {
				return rt.Known(f2Classifier, err)
			}
			return err
		}
		return nil
	}
	if r.err != nil {
		return fmt.Errorf("%s: unexpected error %v; documented result %q via %v, input %q, call log %v", desc(), r.err, e.out, e.winners, r.doc, r.log)
	}
	if len(r.log) != len(e.log) || !logAgrees(c, e, r) {
		return fmt.Errorf("%s: extra user calls: log %v, documented order demands exactly %v", desc(), r.log, e.log)
	}
	if c.Dir == "m" {
		if string(r.out) != e.out {
			return fmt.Errorf("%s: output %q, documented representation %q (via %v)", desc(), r.out, e.out, e.winners)
		}
		return nil
	}
	// unmarshal: inspect the destination.
	_, str := uValues(c.Pos)
	var found []reflect.Value
	collect(reflect.ValueOf(r.root), findU(c.Type).Typ, str, &found)
	if len(found) != len(e.vals) {
		return fmt.Errorf("%s: destination holds %d values of the pool type, expected %d (root %+v)", desc(), len(found), len(e.vals), r.root)
	}
	for i, v := range found {
		w := e.vals[i]
		if str {
			if v.String() != w.str {
				return fmt.Errorf("%s: destination string #%d = %q, expected %q", desc(), i, v.String(), w.str)
			}
			continue
		}
		got := v.FieldByName("Got").String()
		if got != w.got {
			return fmt.Errorf("%s: destination value #%d has Got=%q, expected %q (winner %v; mutations of pointer-receiver methods must be stored back)", desc(), i, got, w.got, e.winners)
		}
		if w.checkX && int(v.FieldByName("X").Int()) != w.x {
			return fmt.Errorf("%s: destination value #%d has X=%d, expected %d", desc(), i, v.FieldByName("X").Int(), w.x)
		}
	}
	return nil
}

// logAgrees: the documented call sequence must be a prefix of the observed
// one. The members of a map may be visited in any order (Deterministic fixes
// the output, not the order of the calls), so at the two-entry map position
// the sequences are compared per value: all of them on success, the failing
// value's on failure.
func logAgrees(c *Case, e *expect, r *result) bool {
	if c.Pos != "imap-val" {
		return len(r.log) >= len(e.log) && slices.Equal(r.log[:len(e.log)], e.log)
	}
	per := func(log []string, label string) []string {
		var out []string
		for _, l := range log {
			if strings.HasSuffix(l, "#"+label) {
				out = append(out, l)
			}
		}
		return out
	}
	labels := []string{"1", "2"}
	if e.err {
		labels = []string{fmt.Sprint(c.When + 1)}
	}
	for _, lb := range labels {
		got, want := per(r.log, lb), per(e.log, lb)
		if len(got) < len(want) || !slices.Equal(got[:len(want)], want) {
			return false
		}
		if !e.err && len(got) != len(want) {
			return false
		}
	}
	return true
}

func sortedLog(c *Case, log []string) []string {
	if c.Pos != "imap-val" {
		return log
	}
	out := slices.Clone(log)
	slices.Sort(out)
	return out
}

func sameResult(c *Case, a, b *result) bool {
	return string(a.out) == string(b.out) && (a.err == nil) == (b.err == nil) && slices.Equal(sortedLog(c, a.log), sortedLog(c, b.log)) &&
		(a.panicv == nil) == (b.panicv == nil) && slices.Equal(a.flags, b.flags) && reflect.DeepEqual(a.root, b.root)
}

// Run decides one case.
func Run(in Case) error {
	rec.Eval()
	c, err := normalise(in)
	if err != nil {
		return fmt.Errorf("harness: bad case: %v", err)
	}
	var e expect
	if c.Dir == "m" {
		e = modelMarshal(&c, findM(c.Type).Recv)
	} else {
		e, _ = modelUnmarshal(&c, findU(c.Type).Recv)
	}
	record(&c, &e)

	s := newSession(&c)
	nb := neighbour(c)
	var r1, r2 result
	if c.Order == 0 {
		r1 = exec(&c, s) // cold function cache
		if rn := exec(&nb, s); rn.panicv != nil {
			return classifyPanic(&c, rn.panicv, fmt.Errorf("neighbour case (position %s) panicked: %v", nb.Pos, rn.panicv))
		}
		r2 = exec(&c, s) // warm
	} else {
		if rn := exec(&nb, s); rn.panicv != nil {
			return classifyPanic(&c, rn.panicv, fmt.Errorf("neighbour case (position %s) panicked: %v", nb.Pos, rn.panicv))
		}
		r1 = exec(&c, s)
		r2 = exec(&c, s)
	}
	if err := verify(&c, &e, &r1, "first run"); err != nil {
		return err
	}
	if err := verify(&c, &e, &r2, "repeat run"); err != nil {
		return err
	}
	if !sameResult(&c, &r1, &r2) {
		return fmt.Errorf("results differ between the first and the repeated run (cache state): out %q/%q err %v/%v log %v/%v", r1.out, r2.out, r1.err, r2.err, r1.log, r2.log)
	}
	// evidence of the policing checks
	if r1.resets > 0 {
		rec.Class("reset-inside-panicked")
	}
	if r1.optsOK > 0 {
		rec.Class("options-inside-equal-callers")
	}
	if r1.popped {
		rec.Class("script-popped-below-entry")
	}
	return nil
}

func record(c *Case, e *expect) {
	raw, _ := json.Marshal(c)
	fp := cov.FP(raw)
	nt := e.ncand >= 2 || e.nonconf
	if nt {
		rec.NonTrivial(fp)
		rec.Sample(fp, func() any {
			return map[string]any{"case": json.RawMessage(raw), "expected_error": e.err, "expected_output": e.out, "expected_call_log": e.log}
		})
	} else {
		rec.Class("trivial")
	}
	rec.Class("dir:" + c.Dir)
	rec.Class("pos:" + c.Dir + ":" + c.Pos)
	for _, w := range e.winners {
		w = strings.TrimRight(w, "0123456789") // f0, f1 -> f
		rec.Class("winner:" + w)
	}
	for _, b := range e.behs {
		rec.Class("reached:" + b)
	}
	switch {
	case e.falls >= 3:
		rec.Class("fallthroughs>=3")
	case e.falls > 0:
		rec.Class(fmt.Sprintf("fallthroughs=%d", e.falls))
	}
	if e.err {
		rec.Class("expect-error")
	} else {
		rec.Class("expect-success")
	}
	if e.pop {
		rec.Class("f2-class(pop-below-entry)")
	}
	if e.ncand >= 4 {
		rec.Class("candidates>=4")
	}
	if c.Funcs != nil {
		var l []leaf
		flatten(c.Funcs, &l)
		rec.Class(fmt.Sprintf("funcs-in-list=%d", min(len(l), 6)))
	}
	if len(c.Opts) > 0 {
		rec.Class("with-caller-options")
	}
}

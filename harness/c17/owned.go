package c17

// Sub-check "owned": what the fixed positions of the enumeration do not
// reach.
//
// (a) Sessions on a caller-owned coder. The caller opens 1..3 containers with
// ReadToken / WriteToken, hands every element of the innermost array to
// UnmarshalDecode / MarshalEncode with a caller-supplied function or a type
// with a method, and goes on by itself afterwards. One chosen element makes the
// user code misbehave after it has read / written exactly one value (custom
// error), or decline without touching the coder (ErrUnsupported: the default
// representation is used). The policing of user code ("cannot end a container
// begun by the caller", "cannot reset") belongs to the call: after the call -
// also after a failed one - the caller must be able to finish its containers
// and the stream exactly like a twin session that moved the same values with
// ReadValue / WriteToken.
//
// (b) Embedded fallback maps as a position: every unknown member that lands in
// an `embed` map (fresh key, key already present in the destination, repeated
// key under AllowDuplicateNames) and every entry marshaled out of it passes
// through the caller-supplied function for the element type.

import (
	"bytes"
	"errors"
	"fmt"
	"io"
	"os"
	"strings"

	json "github.com/go-json-experiment/json"
	"github.com/go-json-experiment/json/jsontext"
	"pgregory.net/rapid"

	"verif/harness/cov"
	"verif/harness/rt"
)

type OCase struct {
	Mode   int   `json:"mode"`   // 0 decoder session, 1 encoder session, 2 fallback unmarshal, 3 fallback marshal, 4 options visible to user code in tagged fields, 5 user code that leaves a container of its own open
	Opens  []int `json:"opens"`  // containers opened by the caller, outermost first: 0 array, 1 object (the innermost is always an array)
	N      int   `json:"n"`      // elements of the innermost array
	Idx    int   `json:"idx"`    // element on which the user code misbehaves
	Behav  int   `json:"behav"`  // 0 well behaved, 1 custom error after exactly one value, 2 ErrUnsupported without touching the coder
	Method bool  `json:"method"` // the user code is a method of the element type instead of a function
	Reader int   `json:"reader"` // decoder input: 0 bytes.Reader, 1 bytes.Buffer, 2 one byte per read
	Keys   []int `json:"keys"`   // fallback modes: member keys in input order (small integers, repeats allowed)
	Pre    []int `json:"pre"`    // fallback unmarshal: keys already present in the destination
	Dup    bool  `json:"dup"`    // fallback unmarshal: AllowDuplicateNames(true)
	Elem   int   `json:"elem"`   // fallback element type: 0 int, 1 string, 2 *int
}

func genOCase(t *rapid.T) OCase {
	c := OCase{
		Mode:   rapid.IntRange(0, 5).Draw(t, "mode"),
		N:      rapid.IntRange(1, 5).Draw(t, "n"),
		Behav:  rapid.SampledFrom([]int{0, 1, 1, 1, 2}).Draw(t, "behav"),
		Method: rapid.Bool().Draw(t, "method"),
		Reader: rapid.IntRange(0, 2).Draw(t, "reader"),
		Dup:    rapid.Bool().Draw(t, "dup"),
		Elem:   rapid.IntRange(0, 2).Draw(t, "elem"),
	}
	c.Idx = rapid.IntRange(0, c.N-1).Draw(t, "idx")
	c.Opens = rapid.SliceOfN(rapid.IntRange(0, 1), 0, 2).Draw(t, "opens")
	c.Keys = rapid.SliceOfN(rapid.IntRange(0, 5), 1, 6).Draw(t, "keys")
	c.Pre = rapid.SliceOfN(rapid.IntRange(0, 5), 0, 3).Draw(t, "pre")
	return c
}

var errOwned = errors.New("owned: user code gives up after one value")

// ownedElem is the element type with methods (used when OCase.Method).
type ownedElem struct {
	V     int
	behav *int // behaviour to apply (shared with the case)
}

func (e *ownedElem) UnmarshalJSONFrom(dec *jsontext.Decoder) error {
	if *e.behav == 2 {
		return errors.ErrUnsupported
	}
	v, err := dec.ReadValue()
	if err != nil {
		return err
	}
	e.V = len(v)
	if *e.behav == 1 {
		return errOwned
	}
	return nil
}

func (e ownedElem) MarshalJSONTo(enc *jsontext.Encoder) error {
	if *e.behav == 2 {
		return errors.ErrUnsupported
	}
	if err := enc.WriteToken(jsontext.Int(int64(e.V))); err != nil {
		return err
	}
	if *e.behav == 1 {
		return errOwned
	}
	return nil
}

type oStep struct {
	what string
	err  string
	off  int64
	ptr  string
	dep  int
}

func (s oStep) String() string {
	return fmt.Sprintf("%s err=%s off=%d depth=%d ptr=%q", s.what, s.err, s.off, s.dep, s.ptr)
}

func errClass(err error) string {
	switch {
	case err == nil:
		return "nil"
	case err == io.EOF:
		return "EOF"
	default:
		return fmt.Sprintf("%T", err)
	}
}

func RunOwned(c OCase) error {
	rec.Eval()
	if c.N < 1 {
		c.N = 1
	}
	if c.Idx < 0 || c.Idx >= c.N {
		c.Idx = 0
	}
	var err error
	switch c.Mode {
	case 0:
		err = runOwnedDecoder(c)
	case 1:
		err = runOwnedEncoder(c)
	case 2:
		err = runFallbackUnmarshal(c)
	case 3:
		err = runFallbackMarshal(c)
	case 5:
		err = runOpenLeft(c)
	default:
		err = runVisibleOptions(c)
	}
	fp := cov.FPs("owned", fmt.Sprintf("%+v", c))
	if c.Behav != 0 || c.Mode >= 2 {
		rec.NonTrivial(fp)
	}
	rec.Class(fmt.Sprintf("owned-mode-%d/behav-%d", c.Mode, c.Behav))
	rec.Sample(fp, func() any { return map[string]any{"sub": "owned", "case": fmt.Sprintf("%+v", c)} })
	return err
}

// ownedDoc builds the text of a decoder session: the opened containers, the
// innermost array with n elements, closers, and a second top-level value.
func ownedDoc(c OCase) (doc []byte, elems [][]byte) {
	var sb bytes.Buffer
	for i, o := range c.Opens {
		if o == 1 {
			fmt.Fprintf(&sb, `{"k%d": `, i)
		} else {
			sb.WriteString(`[ `)
		}
	}
	sb.WriteString("[")
	for i := 0; i < c.N; i++ {
		var e []byte
		switch i % 3 {
		case 0:
			e = []byte(fmt.Sprint(10 + i))
		case 1:
			e = []byte(`"x"`)
		default:
			e = []byte(`333`)
		}
		if i > 0 {
			sb.WriteString(", ")
		}
		sb.Write(e)
		elems = append(elems, e)
	}
	sb.WriteString("]")
	for i := len(c.Opens) - 1; i >= 0; i-- {
		if c.Opens[i] == 1 {
			sb.WriteString(` }`)
		} else {
			sb.WriteString(` ]`)
		}
	}
	sb.WriteString(` [22] `)
	return sb.Bytes(), elems
}

type oneByte struct{ r io.Reader }

func (o oneByte) Read(p []byte) (int, error) {
	if len(p) == 0 {
		return 0, nil
	}
	return o.r.Read(p[:1])
}

func runOwnedDecoder(c OCase) error {
	if c.Behav == 2 && (c.Method || c.Idx%3 == 1) {
		c.Behav = 1 // the default representation would not fit the element: what happens to the value then is another property's business
	}
	doc, _ := ownedDoc(c)
	var ctor []jsontext.Options // c.Dup: the functions are options of the coder itself, the calls pass none
	mkDec := func() *jsontext.Decoder {
		switch c.Reader {
		case 1:
			return jsontext.NewDecoder(bytes.NewBuffer(bytes.Clone(doc)), ctor...)
		case 2:
			return jsontext.NewDecoder(oneByte{bytes.NewReader(doc)}, ctor...)
		}
		return jsontext.NewDecoder(bytes.NewReader(doc), ctor...)
	}
	cur := 0 // element index seen by the user code
	behavNow := new(int)
	opts := json.WithUnmarshalers(json.UnmarshalFromFunc(func(dec *jsontext.Decoder, p *int) error {
		b := 0
		if cur == c.Idx {
			b = c.Behav
		}
		if b == 2 {
			return errors.ErrUnsupported
		}
		v, err := dec.ReadValue()
		if err != nil {
			return err
		}
		*p = len(v)
		if b == 1 {
			return errOwned
		}
		return nil
	}))
	callOpts := []json.Options{opts}
	if c.Dup {
		ctor, callOpts = []jsontext.Options{opts}, nil
	}
	session := func(twin bool) (steps []oStep, perr *rt.PanicErr) {
		dec := mkDec()
		note := func(what string, err error) {
			steps = append(steps, oStep{what, errClass(err), dec.InputOffset(), string(dec.StackPointer()), dec.StackDepth()})
		}
		perr = rt.Guard(func() {
			for range c.Opens {
				_, err := dec.ReadToken() // '{' or '['
				note("open", err)
				if dec.PeekKind() == '"' {
					_, err = dec.ReadToken()
					note("name", err)
				}
			}
			_, err := dec.ReadToken()
			note("open-inner", err)
			for cur = 0; cur < c.N; cur++ {
				b := 0
				if cur == c.Idx {
					b = c.Behav
				}
				*behavNow = b
				if twin {
					_, err := dec.ReadValue()
					note("elem", err)
					continue
				}
				var err error
				if c.Method {
					e := ownedElem{behav: behavNow}
					err = json.UnmarshalDecode(dec, &e)
				} else {
					var v int
					err = json.UnmarshalDecode(dec, &v, callOpts...)
				}
				switch {
				case b == 1 && !errors.Is(err, errOwned):
					note(fmt.Sprintf("elem: the user code's error was not reported (%v)", err), nil)
				case b == 1:
					note("elem", nil) // exactly one value was consumed: the session continues
				default:
					note("elem", err)
				}
			}
			for i := 0; i <= len(c.Opens); i++ {
				_, err := dec.ReadToken()
				note("close", err)
			}
			cur = -1
			*behavNow = 0
			if twin {
				_, err := dec.ReadValue()
				note("next", err)
			} else {
				var next []int
				err := json.UnmarshalDecode(dec, &next, callOpts...)
				note("next", err)
				if err == nil && (len(next) != 1 || next[0] != 2) {
					note(fmt.Sprintf("next value decoded as %v, want [2] (the function stores the length of the text)", next), nil)
				}
			}
			_, err = dec.ReadToken()
			note("end", err)
			// the caller may reset its coder once no call is in progress
			dec.Reset(bytes.NewReader([]byte(`[1]`)), ctor...)
			_, err = dec.ReadValue()
			note("after-reset", err)
		})
		return steps, perr
	}
	got, p1 := session(false)
	want, p2 := session(true)
	if p2 != nil {
		return nil // the twin does not involve user code; a panic there is another property's business
	}
	if p1 != nil {
		return fmt.Errorf("decoder session panicked: %v\ncase %+v on %s", p1, c, doc)
	}
	return compareSteps("decoder", c, doc, got, want)
}

func compareSteps(kind string, c OCase, doc []byte, got, want []oStep) error {
	for i := 0; i < len(got) || i < len(want); i++ {
		var g, w oStep
		if i < len(got) {
			g = got[i]
		}
		if i < len(want) {
			w = want[i]
		}
		if g != w {
			return fmt.Errorf("%s session on a caller-owned coder: step %d is {%v}, the twin session that moves the same values itself has {%v}\ncase %+v\ninput %s", kind, i, g, w, c, doc)
		}
	}
	return nil
}

func runOwnedEncoder(c OCase) error {
	cur := 0
	behavNow := new(int)
	opts := json.WithMarshalers(json.MarshalToFunc(func(enc *jsontext.Encoder, v int) error {
		b := 0
		if cur == c.Idx {
			b = c.Behav
		}
		if b == 2 {
			return errors.ErrUnsupported
		}
		if err := enc.WriteToken(jsontext.Int(int64(v))); err != nil {
			return err
		}
		if b == 1 {
			return errOwned
		}
		return nil
	}))
	callOpts := []json.Options{opts}
	var ctor []jsontext.Options // c.Dup: the functions are options of the coder itself, the calls pass none
	if c.Dup {
		ctor, callOpts = []jsontext.Options{opts}, nil
	}
	session := func(twin bool) (steps []oStep, out []byte, perr *rt.PanicErr) {
		var bb bytes.Buffer
		enc := jsontext.NewEncoder(&bb, ctor...)
		note := func(what string, err error) {
			steps = append(steps, oStep{what, errClass(err), enc.OutputOffset(), string(enc.StackPointer()), enc.StackDepth()})
		}
		perr = rt.Guard(func() {
			for i, o := range c.Opens {
				if o == 1 {
					note("open", enc.WriteToken(jsontext.BeginObject))
					note("name", enc.WriteToken(jsontext.String(fmt.Sprint("k", i))))
				} else {
					note("open", enc.WriteToken(jsontext.BeginArray))
				}
			}
			note("open-inner", enc.WriteToken(jsontext.BeginArray))
			for cur = 0; cur < c.N; cur++ {
				b := 0
				if cur == c.Idx {
					b = c.Behav
				}
				*behavNow = b
				v := 10 + cur
				if twin || (b == 2 && c.Method) {
					// (a method-bearing struct that declines is written in its default
					// representation, an object: the twin cannot mirror that with a number)
					if b == 2 && c.Method {
						note("elem", json.MarshalEncode(enc, ownedElem{V: v, behav: new(int)}))
						continue
					}
					note("elem", enc.WriteToken(jsontext.Int(int64(v))))
					continue
				}
				var err error
				if c.Method {
					err = json.MarshalEncode(enc, ownedElem{V: v, behav: behavNow})
				} else {
					err = json.MarshalEncode(enc, v, callOpts...)
				}
				if b == 1 {
					if !errors.Is(err, errOwned) {
						note(fmt.Sprintf("elem: the user code's error was not reported (%v)", err), nil)
					} else {
						note("elem", nil)
					}
					continue
				}
				note("elem", err)
			}
			for i := len(c.Opens); i >= 0; i-- {
				if i > 0 && c.Opens[i-1] == 1 {
					note("close", enc.WriteToken(jsontext.EndObject))
				} else {
					note("close", enc.WriteToken(jsontext.EndArray))
				}
			}
			cur = -1
			*behavNow = 0
			if twin {
				note("next", enc.WriteValue(jsontext.Value(`[22]`)))
			} else {
				note("next", json.MarshalEncode(enc, []int{22}, callOpts...))
			}
			// the caller may reset its coder once no call is in progress
			enc.Reset(&bb, ctor...)
			note("after-reset", enc.WriteValue(jsontext.Value(`[1]`)))
		})
		return steps, bb.Bytes(), perr
	}
	got, gout, p1 := session(false)
	want, wout, p2 := session(true)
	if p2 != nil {
		return nil
	}
	if p1 != nil {
		return fmt.Errorf("encoder session panicked: %v\ncase %+v", p1, c)
	}
	if err := compareSteps("encoder", c, nil, got, want); err != nil {
		return err
	}
	if !bytes.Equal(gout, wout) {
		return fmt.Errorf("encoder session on a caller-owned coder wrote %q, the twin session that writes the same values itself wrote %q\ncase %+v", gout, wout, c)
	}
	return nil
}

type fbInt struct {
	A int            `json:"a"`
	X map[string]int `json:",embed"`
}
type fbString struct {
	A int               `json:"a"`
	X map[string]string `json:",embed"`
}
type fbPtr struct {
	A int             `json:"a"`
	X map[string]*int `json:",embed"`
}

func runFallbackUnmarshal(c OCase) error {
	if len(c.Keys) == 0 {
		return nil
	}
	seen := map[int]bool{}
	var sb strings.Builder
	sb.WriteString(`{"a":1`)
	members := 0
	for _, k := range c.Keys {
		if seen[k] && !c.Dup {
			continue
		}
		seen[k] = true
		members++
		if c.Elem == 1 {
			fmt.Fprintf(&sb, `,"u%d":"s%d"`, k, members)
		} else {
			fmt.Fprintf(&sb, `,"u%d":%d`, k, members)
		}
	}
	sb.WriteString("}")
	in := []byte(sb.String())
	calls := 0
	opts := []json.Options{jsontext.AllowDuplicateNames(c.Dup)}
	var dst any
	var result func() map[string]int // key -> observed marker
	switch c.Elem {
	case 0:
		d := &fbInt{}
		for _, k := range c.Pre {
			if d.X == nil {
				d.X = map[string]int{}
			}
			d.X[fmt.Sprint("u", k)] = -5
		}
		opts = append(opts, json.WithUnmarshalers(json.UnmarshalFunc(func(b []byte, p *int) error { calls++; *p = 1000 + calls; return nil })))
		dst, result = d, func() map[string]int { return d.X }
		// field "a" is an int as well: it goes through the function too
	case 1:
		d := &fbString{}
		for _, k := range c.Pre {
			if d.X == nil {
				d.X = map[string]string{}
			}
			d.X[fmt.Sprint("u", k)] = "old"
		}
		opts = append(opts, json.WithUnmarshalers(json.UnmarshalFromFunc(func(dec *jsontext.Decoder, p *string) error {
			if _, err := dec.ReadValue(); err != nil {
				return err
			}
			calls++
			*p = fmt.Sprint(1000 + calls)
			return nil
		})))
		dst, result = d, func() map[string]int {
			m := map[string]int{}
			for k, v := range d.X {
				n := 0
				fmt.Sscan(v, &n)
				m[k] = n
			}
			return m
		}
	default:
		d := &fbPtr{}
		for _, k := range c.Pre {
			if d.X == nil {
				d.X = map[string]*int{}
			}
			old := -5
			d.X[fmt.Sprint("u", k)] = &old
		}
		opts = append(opts, json.WithUnmarshalers(json.UnmarshalFunc(func(b []byte, p *int) error { calls++; *p = 1000 + calls; return nil })))
		dst, result = d, func() map[string]int {
			m := map[string]int{}
			for k, v := range d.X {
				if v != nil {
					m[k] = *v
				} else {
					m[k] = -1
				}
			}
			return m
		}
	}
	var err error
	if p := rt.Guard(func() { err = json.Unmarshal(in, dst, opts...) }); p != nil {
		return fmt.Errorf("Unmarshal panicked: %v\ncase %+v input %s", p, c, in)
	}
	if err != nil {
		return fmt.Errorf("Unmarshal(%s) with a function for the element type of the embedded fallback map failed: %v\ncase %+v", in, err, c)
	}
	wantCalls := members
	if c.Elem != 1 {
		wantCalls++ // field "a"
	}
	if calls != wantCalls {
		return fmt.Errorf("Unmarshal(%s): the caller-supplied function ran %d times, want %d (once for every member whose value has the function's type; destination pre-populated with keys %v)\ncase %+v", in, calls, wantCalls, c.Pre, c)
	}
	for k, v := range result() {
		mentioned := false
		for _, kk := range c.Keys {
			if fmt.Sprint("u", kk) == k {
				mentioned = true
			}
		}
		if mentioned && (v <= 1000 || v > 1000+calls) {
			return fmt.Errorf("Unmarshal(%s): fallback entry %q holds %d, which is not a value the caller-supplied function stored (1001..%d)\ncase %+v", in, k, v, 1000+calls, c)
		}
		if !mentioned && v > 1000 {
			return fmt.Errorf("Unmarshal(%s): fallback entry %q was not mentioned in the input but holds %d\ncase %+v", in, k, v, c)
		}
	}
	return nil
}

func runFallbackMarshal(c OCase) error {
	v := fbInt{A: 1, X: map[string]int{}}
	for _, k := range c.Keys {
		v.X[fmt.Sprint("u", k)] = k
	}
	calls := 0
	opts := []json.Options{json.Deterministic(true), json.WithMarshalers(json.MarshalFunc(func(n int) ([]byte, error) {
		calls++
		return []byte(fmt.Sprintf(`"f%d"`, n)), nil
	}))}
	var out []byte
	var err error
	if p := rt.Guard(func() { out, err = json.Marshal(v, opts...) }); p != nil {
		return fmt.Errorf("Marshal panicked: %v\ncase %+v", p, c)
	}
	if err != nil {
		return fmt.Errorf("Marshal failed: %v\ncase %+v", err, c)
	}
	var back map[string]string
	if err := json.Unmarshal(out, &back); err != nil {
		return fmt.Errorf("Marshal wrote %s: not every member is the string the caller-supplied function produced (%v)\ncase %+v", out, err, c)
	}
	if calls != len(v.X)+1 || len(back) != len(v.X)+1 {
		return fmt.Errorf("Marshal wrote %s after %d calls of the function, want %d members\ncase %+v", out, calls, len(v.X)+1, c)
	}
	for k, s := range back {
		want := "f1"
		if k != "a" {
			want = fmt.Sprint("f", v.X[k])
		}
		if s != want {
			return fmt.Errorf("Marshal wrote %s: member %q is %q, want %q\ncase %+v", out, k, s, want, c)
		}
	}
	return nil
}

// (c) Options visible to user code: a method of a field type asks the coder
// for the options; whatever the caller set explicitly must be reported as set,
// with the caller's value, also inside fields tagged `string` or `omitzero`
// and inside containers. Keys carries the explicit settings: option index*2 +
// value.

type qElem struct{ N int }

var qLog *[]string // where qElem methods report (one case at a time)

var qOptions = []struct {
	name string
	mk   func(bool) json.Options
	get  func(json.Options) (bool, bool)
}{
	{"StringifyNumbers", json.StringifyNumbers, func(o json.Options) (bool, bool) { return json.GetOption(o, json.StringifyNumbers) }},
	{"Deterministic", json.Deterministic, func(o json.Options) (bool, bool) { return json.GetOption(o, json.Deterministic) }},
	{"FormatNilSliceAsNull", json.FormatNilSliceAsNull, func(o json.Options) (bool, bool) { return json.GetOption(o, json.FormatNilSliceAsNull) }},
	{"OmitZeroStructFields", json.OmitZeroStructFields, func(o json.Options) (bool, bool) { return json.GetOption(o, json.OmitZeroStructFields) }},
	{"MatchCaseInsensitiveNames", json.MatchCaseInsensitiveNames, func(o json.Options) (bool, bool) { return json.GetOption(o, json.MatchCaseInsensitiveNames) }},
	{"RejectUnknownMembers", json.RejectUnknownMembers, func(o json.Options) (bool, bool) { return json.GetOption(o, json.RejectUnknownMembers) }},
}

func (q qElem) report(o json.Options) {
	for _, qo := range qOptions {
		v, ok := qo.get(o)
		*qLog = append(*qLog, fmt.Sprintf("%s=%v,%v", qo.name, v, ok))
	}
}

func (q qElem) MarshalJSONTo(enc *jsontext.Encoder) error {
	q.report(enc.Options())
	return enc.WriteToken(jsontext.Int(1))
}

func (q *qElem) UnmarshalJSONFrom(dec *jsontext.Decoder) error {
	q.report(dec.Options())
	_, err := dec.ReadValue()
	return err
}

type qHolder struct {
	Plain  qElem
	Str    qElem            `json:",string"`
	Zero   qElem            `json:",omitzero"`
	Slice  []qElem
	Map    map[string]qElem
	Ptr    *qElem           `json:",string"`
	Nested struct {
		In qElem `json:",string"`
	}
}

func runVisibleOptions(c OCase) error {
	set := map[int]bool{}
	var opts []json.Options
	var asText []string
	for _, k := range c.Keys {
		i, v := (k/2)%len(qOptions), k%2 == 1
		if _, dup := set[i]; dup {
			continue
		}
		set[i] = v
		opts = append(opts, qOptions[i].mk(v))
		asText = append(asText, fmt.Sprintf("%s(%v)", qOptions[i].name, v))
	}
	if c.Dup && len(opts) > 1 {
		opts = []json.Options{json.JoinOptions(opts...)}
	}
	var log []string
	q := qElem{N: 1}
	qLog = &log
	var err error
	if c.Elem == 0 {
		h := qHolder{Plain: q, Str: q, Zero: q, Slice: []qElem{q}, Map: map[string]qElem{"k": q}, Ptr: &q}
		h.Nested.In = q
		if p := rt.Guard(func() { _, err = json.Marshal(&h, opts...) }); p != nil {
			return fmt.Errorf("Marshal panicked: %v (options %v)", p, asText)
		}
	} else {
		h := qHolder{Plain: q, Str: q, Zero: q, Slice: []qElem{q}, Map: map[string]qElem{"k": q}, Ptr: &q}
		h.Nested.In = q
		in := []byte(`{"Plain":1,"Str":"1","Zero":1,"Slice":[1],"Ptr":"1","Nested":{"In":"1"}}`)
		if p := rt.Guard(func() { err = json.Unmarshal(in, &h, opts...) }); p != nil {
			return fmt.Errorf("Unmarshal panicked: %v (options %v)", p, asText)
		}
	}
	if err != nil {
		if os.Getenv("C17_DBG") != "" {
			fmt.Println("dbg err:", err)
		}
		return nil // not this sub-check's business
	}
	if os.Getenv("C17_DBG") != "" {
		fmt.Println("dbg log:", log)
	}
	if len(log) == 0 {
		return nil
	}
	for _, line := range log {
		for i, v := range set {
			pre := qOptions[i].name + "="
			if strings.HasPrefix(line, pre) && line != fmt.Sprintf("%s%v,true", pre, v) {
				return fmt.Errorf("user code of a field type asked the coder for %s and got %s; the caller passed %v (direction %d, joined %v): GetOption must report exactly what the caller set, also inside tagged fields", qOptions[i].name, line[len(pre):], asText, c.Elem, c.Dup)
			}
		}
	}
	return nil
}


// ---- (d) user code that opens a container and leaves it open ------------------

// openElem reads its value whole, or (k >= 0) the opening token of its array and k elements.
type openElem struct{ k *int }

func openLeft(dec *jsontext.Decoder, k int) error {
	if k < 0 {
		_, err := dec.ReadValue()
		return err
	}
	if _, err := dec.ReadToken(); err != nil { // '['
		return err
	}
	for i := 0; i < k; i++ {
		if _, err := dec.ReadValue(); err != nil {
			return err
		}
	}
	return nil // the array is still open
}

func (e *openElem) UnmarshalJSONFrom(dec *jsontext.Decoder) error { return openLeft(dec, *e.k) }

// runOpenLeft: the caller opens an array of arrays on its own Decoder and hands every element to
// UnmarshalDecode. On one element the user code reads the opening bracket and k elements and returns nil
// with its array still open - in particular k = index+1, which makes the number of values read inside equal
// the number the caller's array would hold after one more value. "A method or function that reads anything
// other than exactly one JSON value yields an error": the call must fail.
func runOpenLeft(c OCase) error {
	k := 0
	if len(c.Keys) > 0 {
		k = c.Keys[0]
	}
	if len(c.Pre) > 0 {
		k = c.Idx + 1 // the count that matches the caller's own level
	}
	var sb strings.Builder
	for _, o := range c.Opens {
		if o == 1 {
			sb.WriteString(`{"k":`)
		} else {
			sb.WriteString(`[`)
		}
	}
	sb.WriteString("[")
	for i := 0; i < c.N; i++ {
		if i > 0 {
			sb.WriteString(",")
		}
		sb.WriteString("[1,1,1,1,1,1,1]")
	}
	sb.WriteString("]")
	for i := len(c.Opens) - 1; i >= 0; i-- {
		sb.WriteString(map[int]string{0: "]", 1: "}"}[c.Opens[i]])
	}
	doc := sb.String()
	kNow := -1
	opts := []json.Options{json.WithUnmarshalers(json.UnmarshalFromFunc(func(dec *jsontext.Decoder, _ *uint16) error { return openLeft(dec, kNow) }))}
	var dec *jsontext.Decoder
	switch c.Reader {
	case 1:
		dec = jsontext.NewDecoder(bytes.NewBufferString(doc))
	case 2:
		dec = jsontext.NewDecoder(oneByte{strings.NewReader(doc)})
	default:
		dec = jsontext.NewDecoder(strings.NewReader(doc))
	}
	var verdict error
	p := rt.Guard(func() {
		for range c.Opens {
			if _, err := dec.ReadToken(); err != nil {
				verdict = fmt.Errorf("caller cannot open its containers: %v", err)
				return
			}
			if dec.PeekKind() == '"' {
				dec.ReadToken()
			}
		}
		dec.ReadToken() // the array of arrays
		for i := 0; i < c.N; i++ {
			kNow = -1
			if i == c.Idx {
				kNow = k
			}
			var err error
			if c.Method {
				err = json.UnmarshalDecode(dec, &openElem{k: &kNow})
			} else {
				var v uint16
				err = json.UnmarshalDecode(dec, &v, opts...)
			}
			if i == c.Idx {
				if err == nil {
					verdict = fmt.Errorf("UnmarshalDecode returned nil although the user code (method=%v) read '[' and %d elements of element %d and left that array open (depth now %d, pointer %q)\ntext %s",
						c.Method, k, i, dec.StackDepth(), dec.StackPointer(), doc)
				}
				return
			}
			if err != nil {
				verdict = fmt.Errorf("UnmarshalDecode of element %d (read whole by the user code) failed: %v\ntext %s", i, err, doc)
				return
			}
		}
	})
	if p != nil {
		return fmt.Errorf("session panicked: %v\ntext %s", p, doc)
	}
	return verdict
}

package c11

import (
	"fmt"
	"strconv"
	"unicode/utf8"

	"verif/harness/ref"
	"verif/harness/rt"
)

// selfTest cross-checks the reference quoting functions against fixed vectors
// and the standard library where the specifications coincide. A failure makes
// the run inconclusive, never a violation.
func selfTest(e *rt.Env) {
	bs := string(rune(92)) // backslash
	vec := []struct{ in, min, html, js string }{
		{"", `""`, `""`, `""`},
		{"a", `"a"`, `"a"`, `"a"`},
		{"\"", `"` + bs + `""`, `"` + bs + `""`, `"` + bs + `""`},
		{bs, `"` + bs + bs + `"`, `"` + bs + bs + `"`, `"` + bs + bs + `"`},
		{"\x00", `"` + bs + `u0000"`, `"` + bs + `u0000"`, `"` + bs + `u0000"`},
		{"\x1f", `"` + bs + `u001f"`, `"` + bs + `u001f"`, `"` + bs + `u001f"`},
		{"\b\f\n\r\t", `"` + bs + "b" + bs + "f" + bs + "n" + bs + "r" + bs + `t"`, "", ""},
		{"\x7f/", "\"\x7f/\"", "\"\x7f/\"", "\"\x7f/\""},
		{"<>&", `"<>&"`, `"` + bs + "u003c" + bs + "u003e" + bs + `u0026"`, `"<>&"`},
		{"\xe2\x80\xa8\xe2\x80\xa9", "\"\xe2\x80\xa8\xe2\x80\xa9\"", "\"\xe2\x80\xa8\xe2\x80\xa9\"", `"` + bs + "u2028" + bs + `u2029"`},
		{"\xff", "\"\xef\xbf\xbd\"", "\"\xef\xbf\xbd\"", "\"\xef\xbf\xbd\""},
		{"\xed\xa0\x80", "\"\xef\xbf\xbd\xef\xbf\xbd\xef\xbf\xbd\"", "", ""},
		{"\xf0\x9f\x98\x80", "\"\xf0\x9f\x98\x80\"", "", ""},
	}
	for _, v := range vec {
		if got, _ := ref.Quote(v.in, false, false); got != v.min {
			e.OracleFail(fmt.Sprintf("ref.Quote(%q) = %q, expected %q", v.in, got, v.min))
		}
		if v.html != "" {
			if got, _ := ref.Quote(v.in, true, false); got != v.html {
				e.OracleFail(fmt.Sprintf("ref.Quote(%q, html) = %q, expected %q", v.in, got, v.html))
			}
		}
		if v.js != "" {
			if got, _ := ref.Quote(v.in, false, true); got != v.js {
				e.OracleFail(fmt.Sprintf("ref.Quote(%q, js) = %q, expected %q", v.in, got, v.js))
			}
		}
	}
	// every code point: Quote then Unquote is the identity; for code points where
	// Go's string-literal syntax coincides with JSON, strconv agrees.
	for r := rune(0); r <= 0x10ffff; r++ {
		if r >= 0xd800 && r <= 0xdfff {
			continue
		}
		if r >= 0x3000 && int(r)%e.NShards != e.Shard {
			continue // the shards split the upper planes between them
		}
		s := "x" + string(r) + "y"
		for o := 0; o < 4; o++ {
			q, ok := ref.Quote(s, o&1 != 0, o&2 != 0)
			back, wf, okLit := ref.Unquote([]byte(q))
			if !ok || !okLit || !wf || back != s {
				e.OracleFail(fmt.Sprintf("ref.Quote/Unquote round trip fails for U+%04X (html=%v js=%v): %q -> %q", r, o&1 != 0, o&2 != 0, q, back))
				return
			}
			if o != 0 && r != '<' && r != '>' && r != '&' && r != 0x2028 && r != 0x2029 {
				if q0, _ := ref.Quote(s, false, false); q0 != q {
					e.OracleFail(fmt.Sprintf("ref.Quote escapes U+%04X under an escape option that does not name it", r))
					return
				}
			}
		}
		if r >= 0x20 && r != 0x7f && r != '"' && r != '\\' && utf8.ValidRune(r) && strconv.IsPrint(r) {
			if q, _ := ref.Quote(s, false, false); q != strconv.Quote(s) {
				e.OracleFail(fmt.Sprintf("ref.Quote(%q) = %q but strconv.Quote = %q", s, q, strconv.Quote(s)))
				return
			}
		}
	}
	// well-formedness table against unicode/utf8 on all 1-3 byte strings over the boundary bytes
	bytesOf := []byte{0x00, 0x7f, 0x80, 0x8f, 0x90, 0x9f, 0xa0, 0xbf, 0xc0, 0xc1, 0xc2, 0xdf, 0xe0, 0xe1, 0xec, 0xed, 0xee, 0xef, 0xf0, 0xf1, 0xf3, 0xf4, 0xf5, 0xff}
	for _, a := range bytesOf {
		for _, b := range bytesOf {
			for _, c := range bytesOf {
				for _, d := range bytesOf {
					s := string([]byte{a, b, c, d})
					if ref.WellFormedUTF8(s) != utf8.ValidString(s) {
						e.OracleFail(fmt.Sprintf("ref.WellFormedUTF8(%q) disagrees with unicode/utf8", s))
						return
					}
					if san := ref.Sanitize(s); san != string([]rune(s)) {
						e.OracleFail(fmt.Sprintf("ref.Sanitize(%q) = %q but []rune conversion gives %q", s, san, string([]rune(s))))
						return
					}
				}
			}
		}
	}
}

package c11

import (
	"fmt"
	"strings"
	"unicode/utf8"

	"pgregory.net/rapid"

	"verif/harness/cov"
	"verif/harness/rt"
)

func genOpts(t *rapid.T) Opts {
	return optsFromIndex(rapid.IntRange(0, 15).Draw(t, "opts"))
}

var boundaryRunes = []rune{0x80, 0xa0, 0xff, 0x100, 0x7ff, 0x800, 0xfff, 0x1000, 0x2027, 0x2028, 0x2029, 0x202a, 0x20ac, 0xd7ff, 0xe000, 0xfeff,
	0xfffd, 0xfffe, 0xffff, 0x10000, 0x1f600, 0x2ffff, 0x30000, 0xe0001, 0xfffff, 0x100000, 0x10fffd, 0x10ffff}

var illFormed = []string{"\x80", "\xbf", "\xc0\x80", "\xc1\xbf", "\xc2", "\xc2\x7f", "\xdf", "\xe0\x80\x80", "\xe0\x9f\xbf", "\xe0\xa0", "\xe2\x80", "\xe2", "\xed\xa0\x80",
	"\xed\xbf\xbf", "\xed\xa0\x80\xed\xb0\x80", "\xef\xbf", "\xf0\x80\x80\x80", "\xf0\x8f\xbf\xbf", "\xf0\x90\x80", "\xf0\x9f\x98", "\xf4\x90\x80\x80", "\xf4\x8f\xbf",
	"\xf5\x80\x80\x80", "\xf8\x88\x80\x80\x80", "\xfe", "\xff", "\xe2\x80\xe2\x80\xa8", "\xc2\xe2\x80\xa9"}

const criticalASCII = "\"\\/<>&\x00\x01\x07\x08\x09\x0a\x0b\x0c\x0d\x0e\x1f \x7f'`,:{}[]"

func genRune(t *rapid.T) rune {
	switch rapid.IntRange(0, 3).Draw(t, "runeClass") {
	case 0:
		return rapid.SampledFrom(boundaryRunes).Draw(t, "boundary")
	case 1: // any plane
		plane := rapid.IntRange(0, 16).Draw(t, "plane")
		r := rune(plane<<16 | rapid.IntRange(0, 0xffff).Draw(t, "low"))
		if r >= 0xd800 && r <= 0xdfff {
			r = 0xd7ff
		}
		if r < 0x80 {
			r += 0x80
		}
		return r
	case 2:
		return rune(rapid.IntRange(0x80, 0x7ff).Draw(t, "two"))
	default:
		return rune(rapid.IntRange(0x2020, 0x2030).Draw(t, "nearLS"))
	}
}

func genTextPiece(t *rapid.T, allowBad bool) string {
	cls := rapid.IntRange(0, 9).Draw(t, "pieceClass")
	switch {
	case cls <= 1:
		n := rapid.IntRange(1, 6).Draw(t, "run")
		if rapid.IntRange(0, 30).Draw(t, "longRun") == 0 {
			n = rapid.IntRange(40, 300).Draw(t, "long")
		}
		return strings.Repeat(string(rune('a'+rapid.IntRange(0, 25).Draw(t, "letter"))), n)
	case cls <= 4:
		return string(criticalASCII[rapid.IntRange(0, len(criticalASCII)-1).Draw(t, "critical")])
	case cls <= 7:
		return string(genRune(t))
	case cls == 8 && allowBad:
		return rapid.SampledFrom(illFormed).Draw(t, "ill")
	case cls == 9 && allowBad:
		return string([]byte{byte(rapid.IntRange(0x80, 0xff).Draw(t, "byte"))})
	default:
		return string(rune(rapid.IntRange(0, 0x7f).Draw(t, "ascii")))
	}
}

func genText(t *rapid.T) []byte {
	bad := rapid.IntRange(0, 2).Draw(t, "mayBeIllFormed") == 0
	n := rapid.IntRange(0, 10).Draw(t, "pieces")
	var sb strings.Builder
	for i := 0; i < n; i++ {
		sb.WriteString(genTextPiece(t, bad))
	}
	return []byte(sb.String())
}

func genStr(t *rapid.T) StrCase {
	c := StrCase{S: genText(t), O: genOpts(t)}
	// about 3% of the random cases also go through a reflect.StructOf type
	// (each distinct name is a new type that is never freed)
	c.Name = rapid.IntRange(0, 31).Draw(t, "asName") == 0
	if c.Name && rapid.Bool().Draw(t, "makeEligible") {
		s := string(c.S)
		s = strings.Map(func(r rune) rune {
			if strings.ContainsRune(",\\'\"`", r) {
				return '<'
			}
			return r
		}, strings.ToValidUTF8(s, "&"))
		c.S = []byte(s)
	}
	return c
}

func hex4(t *rapid.T, v int) string {
	s := fmt.Sprintf("%04x", v)
	switch rapid.IntRange(0, 2).Draw(t, "hexCase") {
	case 1:
		s = strings.ToUpper(s)
	case 2:
		b := []byte(s)
		for i := range b {
			if rapid.Bool().Draw(t, "up") {
				b[i] = strings.ToUpper(string(b[i]))[0]
			}
		}
		s = string(b)
	}
	return "\\" + "u" + s
}

func genLitPiece(t *rapid.T, allowBad, allowBroken bool) string {
	cls := rapid.IntRange(0, 15).Draw(t, "litPiece")
	switch cls {
	case 0, 1:
		return strings.Repeat(string(rune('a'+rapid.IntRange(0, 25).Draw(t, "letter"))), rapid.IntRange(1, 5).Draw(t, "run"))
	case 2:
		return rapid.SampledFrom([]string{"<", ">", "&", "/", "\x7f", " ", "'", "`", ",", ":"}).Draw(t, "rawASCII")
	case 3, 4:
		return string(genRune(t))
	case 5:
		return "\\" + rapid.SampledFrom([]string{`"`, `\`, `/`, "b", "f", "n", "r", "t"}).Draw(t, "short")
	case 6: // \u escape of an ASCII code unit (control, printable, html, quote, backslash, DEL)
		v := rapid.SampledFrom([]int{0, 1, 8, 9, 10, 12, 13, 0x1f, 0x20, '"', '\\', '/', '<', '>', '&', 'a', 'A', '0', 0x7f}).Draw(t, "asciiUnit")
		if rapid.IntRange(0, 3).Draw(t, "anyASCII") == 0 {
			v = rapid.IntRange(0, 0x7f).Draw(t, "ascii")
		}
		return hex4(t, v)
	case 7: // \u escape of a BMP non-surrogate
		v := rapid.SampledFrom([]int{0x80, 0xff, 0x7ff, 0x800, 0x2027, 0x2028, 0x2029, 0x202a, 0xd7ff, 0xe000, 0xfeff, 0xfffd, 0xfffe, 0xffff}).Draw(t, "bmpUnit")
		if rapid.IntRange(0, 3).Draw(t, "anyBMP") == 0 {
			v = rapid.IntRange(0x80, 0xffff).Draw(t, "bmp")
			if v >= 0xd800 && v <= 0xdfff {
				v = 0xe000
			}
		}
		return hex4(t, v)
	case 8: // surrogate pair
		hi := rapid.SampledFrom([]int{0xd800, 0xd83d, 0xdbff}).Draw(t, "hi")
		lo := rapid.SampledFrom([]int{0xdc00, 0xde00, 0xdfff}).Draw(t, "lo")
		if rapid.Bool().Draw(t, "anyPair") {
			hi = rapid.IntRange(0xd800, 0xdbff).Draw(t, "hiAny")
			lo = rapid.IntRange(0xdc00, 0xdfff).Draw(t, "loAny")
		}
		return hex4(t, hi) + hex4(t, lo)
	case 9: // unpaired / ill-ordered surrogate escapes
		if !allowBad {
			return hex4(t, 0xfffd)
		}
		hi := rapid.IntRange(0xd800, 0xdbff).Draw(t, "hi")
		lo := rapid.IntRange(0xdc00, 0xdfff).Draw(t, "lo")
		switch rapid.IntRange(0, 6).Draw(t, "loneKind") {
		case 0:
			return hex4(t, hi)
		case 1:
			return hex4(t, lo)
		case 2:
			return hex4(t, lo) + hex4(t, hi)
		case 3:
			return hex4(t, hi) + hex4(t, 0x41)
		case 4:
			return hex4(t, hi) + "x"
		case 5:
			return hex4(t, hi) + hex4(t, hi) + hex4(t, lo)
		default:
			return hex4(t, hi) + "\\n"
		}
	case 10:
		if allowBad {
			return rapid.SampledFrom(illFormed).Draw(t, "ill")
		}
		return "\xe2\x80\xa8"
	case 11:
		if allowBad {
			return string([]byte{byte(rapid.IntRange(0x80, 0xff).Draw(t, "byte"))})
		}
		return "\xe2\x80\xa9"
	case 12:
		return rapid.SampledFrom([]string{"<", ">", "&", "\xe2\x80\xa8", "\xe2\x80\xa9"}).Draw(t, "optChar")
	case 13:
		return strings.Repeat("x", rapid.IntRange(20, 200).Draw(t, "longRun"))
	case 14:
		if allowBroken { // syntactically broken pieces (the case is then skipped and counted)
			return rapid.SampledFrom([]string{"\\x", "\\", "\\" + "u12", "\\" + "u12g4", "\n", "\"", "\\U0041", "\x00", "\x1f"}).Draw(t, "broken")
		}
		return "\\" + "/"
	default:
		return string(rune(rapid.IntRange(0x20, 0x7e).Draw(t, "printable")))
	}
}

func genLiteral(t *rapid.T) []byte {
	bad := rapid.IntRange(0, 2).Draw(t, "mayBeIllFormed") == 0
	broken := rapid.IntRange(0, 19).Draw(t, "mayBeBroken") == 0
	n := rapid.IntRange(0, 10).Draw(t, "pieces")
	var sb strings.Builder
	sb.WriteByte('"')
	for i := 0; i < n; i++ {
		p := genLitPiece(t, bad, broken)
		if !broken {
			// raw quote/backslash from the printable class must be escaped to stay a literal
			switch p {
			case `"`:
				p = `\"`
			case `\`:
				p = `\\`
			}
		}
		sb.WriteString(p)
	}
	sb.WriteByte('"')
	return []byte(sb.String())
}

func genLit(t *rapid.T) LitCase {
	return LitCase{Lit: genLiteral(t), O: genOpts(t)}
}

// ---------------------------------------------------------------------------
// enumerations

var alpha2 = []byte{'"', '\\', '/', '<', '>', '&', 0x00, 0x08, 0x09, 0x0a, 0x0c, 0x0d, 0x1f, 0x20, 0x7f, 'a', 'u', 'n', '0', ',', '\'',
	0x80, 0x8f, 0x90, 0x9f, 0xa0, 0xa8, 0xa9, 0xbd, 0xbf, 0xc0, 0xc1, 0xc2, 0xdf, 0xe0, 0xe1, 0xe2, 0xed, 0xef, 0xf0, 0xf4, 0xf5, 0xff}

var alpha3 = []byte{0xc2, 0xe0, 0xed, 0xef, 0xf0, 0xf4, 0x80, 0x9f, 0xa0, 0xbf, 0x90, 0x8f, 'a', '"', '\\', 0xe2, 0xa8, 0xa9, '<'}

var alpha4 = []byte{0xf0, 0xf4, 0xf1, 0x90, 0x8f, 0x80, 0xbf, 0xe2, 0xa8, 'a'}

// enumShort yields, for every byte string of the bounded-exhaustive layers and
// every one of the 16 option sets, the string as a Go string (StrCase) - and,
// wrapped in quotes, as a candidate literal (LitCase, decided only if it is a
// literal).
func enumShort(e *rt.Env, yieldS func(StrCase) bool, yieldL func(LitCase) bool) {
	type layer struct {
		name  string
		alpha []byte
		n     int
	}
	all := make([]byte, 256)
	for i := range all {
		all[i] = byte(i)
	}
	layers := []layer{
		{"the empty string and every 1-byte string", all, 1},
		{fmt.Sprintf("every 2-byte string over a %d-byte critical alphabet", len(alpha2)), alpha2, 2},
		{fmt.Sprintf("every 3-byte string over %d UTF-8 boundary bytes", len(alpha3)), alpha3, 3},
		{fmt.Sprintf("every 4-byte string over %d bytes around 4-byte sequences and U+2028", len(alpha4)), alpha4, 4},
	}
	var idx int64
	for li, l := range layers {
		total := int64(1)
		for i := 0; i < l.n; i++ {
			total *= int64(len(l.alpha))
		}
		var count int64
		complete := true
		start := int64(0)
		if li == 0 {
			start = -1 // the empty string
		}
	items:
		for i := start; i < total; i++ {
			idx++
			if !e.Mine(idx) {
				continue
			}
			var s []byte
			if i >= 0 {
				s = make([]byte, l.n)
				x := i
				for j := 0; j < l.n; j++ {
					s[j] = l.alpha[x%int64(len(l.alpha))]
					x /= int64(len(l.alpha))
				}
			}
			for o := 0; o < 16; o++ {
				count++
				if yieldS != nil && !yieldS(StrCase{S: s, O: optsFromIndex(o), Name: true}) {
					complete = false
					break items
				}
				if yieldL != nil {
					lit := append(append([]byte{'"'}, s...), '"')
					if !yieldL(LitCase{Lit: lit, O: optsFromIndex(o)}) {
						complete = false
						break items
					}
				}
			}
		}
		kind := "as Go strings on every quoting path (and as struct field names where the tag grammar allows)"
		if yieldS == nil {
			kind = "wrapped in quotes as literals on every unquote/decode/raw pass-through path"
		}
		e.Rec.AddPart(cov.Part{Name: l.name + " x 16 option sets, " + kind, Size: count, Complete: complete})
	}
}

// escapeForms yields every escape form of every ASCII code unit and of the
// critical BMP units, alone and followed/preceded by a letter, as literals.
func enumEscapeForms(e *rt.Env, yield func(LitCase) bool) {
	var idx, count int64
	complete := true
	units := []int{}
	for v := 0; v < 0x80; v++ {
		units = append(units, v)
	}
	units = append(units, 0x80, 0xff, 0x7ff, 0x800, 0x2027, 0x2028, 0x2029, 0x202a, 0xd7ff, 0xd800, 0xdbff, 0xdc00, 0xdfff, 0xe000, 0xfffd, 0xfffe, 0xffff)
	var bodies []string
	for _, v := range units {
		lo := fmt.Sprintf("%04x", v)
		bodies = append(bodies, "\\"+"u"+lo, "\\"+"u"+strings.ToUpper(lo), "a\\"+"u"+lo+"b")
	}
	for _, c := range []string{`"`, `\`, "/", "b", "f", "n", "r", "t"} {
		bodies = append(bodies, "\\"+c, "a\\"+c+"b")
	}
	for _, hi := range []int{0xd800, 0xd83d, 0xdbff} {
		for _, lo := range []int{0xdc00, 0xde00, 0xdfff, 0xdbff, 0x0041, 0xe000} {
			bodies = append(bodies, fmt.Sprintf("\\"+"u%04x\\"+"u%04x", hi, lo), fmt.Sprintf("\\"+"u%04X\\"+"u%04X", hi, lo), fmt.Sprintf("\\"+"u%04x\\"+"u%04x", lo, hi))
		}
	}
items:
	for _, b := range bodies {
		idx++
		if !e.Mine(idx) {
			continue
		}
		for o := 0; o < 16; o++ {
			count++
			if !yield(LitCase{Lit: []byte(`"` + b + `"`), O: optsFromIndex(o)}) {
				complete = false
				break items
			}
		}
	}
	e.Rec.AddPart(cov.Part{Name: "every \\uXXXX spelling (lower/upper hex, alone and between letters) of all 128 ASCII units and 17 critical BMP/surrogate units, the 8 two-character escapes, and 54 surrogate pairings x 16 option sets, as literals", Size: count, Complete: complete})
}

var _ = utf8.RuneError

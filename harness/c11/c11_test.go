package c11

import (
	"runtime"
	"runtime/debug"
	"testing"

	"verif/harness/rt"
)

func TestCheck(t *testing.T) {
	// one shard is a single-threaded workload; 16 shards share the machine
	runtime.GOMAXPROCS(2)
	debug.SetGCPercent(400)
	e := rt.Setup(t, "C11")
	defer e.Finish()
	rec = e.Rec

	selfTest(e)

	// (a) bounded-exhaustive layers
	rt.Enum(e, "enum-strings", func(yield func(StrCase) bool) { enumShort(e, yield, nil) }, RunStr)
	rt.Enum(e, "enum-literals", func(yield func(LitCase) bool) { enumShort(e, nil, yield) }, RunLit)
	rt.Enum(e, "enum-escapes", func(yield func(LitCase) bool) { enumEscapeForms(e, yield) }, RunLit)

	// (b) random layers
	rt.Rapid(e, "strings", 1_600_000, 16_000_000, genStr, RunStr)
	rt.Rapid(e, "literals", 1_600_000, 16_000_000, genLit, RunLit)
}

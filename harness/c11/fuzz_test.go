package c11

import (
	"testing"

	"verif/harness/rt"
)

// FuzzStrings lets the native fuzzer drive the "strings" generator (coverage-guided).
func FuzzStrings(f *testing.F) {
	rt.FuzzRapid(f, "C11", "strings", genStr, RunStr)
}

// Package c11 decides property C11: string escaping is lossless, minimal and
// honours the escape options on every path by which a string reaches the
// output (AppendQuote/AppendUnquote, constructed and raw tokens, raw values,
// Value.Format/AppendFormat, Marshal of values / map keys / struct field
// names / user marshaler output), with one U+FFFD per ill-formed byte.
package c11

import (
	"bytes"
	"fmt"
	"reflect"
	"strconv"
	"strings"
	"sync"
	"testing/iotest"
	"time"

	"github.com/go-json-experiment/json"
	"github.com/go-json-experiment/json/jsontext"

	"verif/harness/cov"
	"verif/harness/ref"
	"verif/harness/rt"
)

var rec = cov.New()

// Opts is the escape-related option set of a case.
type Opts struct {
	HTML     bool `json:"escape_for_html"`
	JS       bool `json:"escape_for_js"`
	Preserve bool `json:"preserve_raw_strings"`
	AllowBad bool `json:"allow_invalid_utf8"`
}

func (o Opts) list() []jsontext.Options {
	return []jsontext.Options{jsontext.EscapeForHTML(o.HTML), jsontext.EscapeForJS(o.JS), jsontext.PreserveRawStrings(o.Preserve), jsontext.AllowInvalidUTF8(o.AllowBad)}
}

func (o Opts) String() string {
	return fmt.Sprintf("{html=%v js=%v preserve=%v allowInvalidUTF8=%v}", o.HTML, o.JS, o.Preserve, o.AllowBad)
}

func (o Opts) key() string {
	b := []byte("----")
	for i, v := range []bool{o.HTML, o.JS, o.Preserve, o.AllowBad} {
		if v {
			b[i] = "HJPA"[i]
		}
	}
	return string(b)
}

func optsFromIndex(i int) Opts {
	return Opts{HTML: i&1 != 0, JS: i&2 != 0, Preserve: i&4 != 0, AllowBad: i&8 != 0}
}

// ---------------------------------------------------------------------------
// user types whose marshal output is data

type textM struct{ B []byte }

func (t textM) MarshalText() ([]byte, error) { return t.B, nil }

type appendM struct{ B []byte }

func (t appendM) AppendText(b []byte) ([]byte, error) { return append(b, t.B...), nil }

type textKey string

func (t textKey) MarshalText() ([]byte, error) { return []byte(t), nil }

type rawM struct{ B []byte }

func (r rawM) MarshalJSON() ([]byte, error) { return r.B, nil }

type tokM struct{ S string }

func (t tokM) MarshalJSONTo(enc *jsontext.Encoder) error {
	return enc.WriteToken(jsontext.String(t.S))
}

type rawTokM struct{ Tok jsontext.Token }

func (t rawTokM) MarshalJSONTo(enc *jsontext.Encoder) error { return enc.WriteToken(t.Tok) }

type funcS struct{ B []byte } // marshalled by a MarshalFunc option returning B

// ---------------------------------------------------------------------------
// output checking

const (
	rawLT  = '<'
	rawGT  = '>'
	rawAmp = '&'
)

// scanForbidden reports the first forbidden raw byte sequence in out.
func scanForbidden(out []byte, o Opts) string {
	if o.HTML {
		if i := bytes.IndexAny(out, "<>&"); i >= 0 {
			return fmt.Sprintf("raw %q at offset %d although EscapeForHTML is set", out[i], i)
		}
	}
	if o.JS {
		if i := bytes.Index(out, []byte("\xe2\x80\xa8")); i >= 0 {
			return fmt.Sprintf("raw U+2028 at offset %d although EscapeForJS is set", i)
		}
		if i := bytes.Index(out, []byte("\xe2\x80\xa9")); i >= 0 {
			return fmt.Sprintf("raw U+2029 at offset %d although EscapeForJS is set", i)
		}
	}
	return ""
}

// shape tells how the string under test is embedded in the output.
type shape int

const (
	shapeBare   shape = iota // LIT
	shapeNL                  // LIT\n
	shapeName                // {LIT:0}
	shapeField               // {"F":LIT}
	shapeBoth                // {LIT:[LIT]}
	shapeBothNL              // {LIT:LIT}\n
	shapeKV                  // {"k":LIT}
)

func wrap(sh shape, lit string) string {
	switch sh {
	case shapeNL:
		return lit + "\n"
	case shapeName:
		return "{" + lit + ":0}"
	case shapeField:
		return `{"F":` + lit + "}"
	case shapeBoth:
		return "{" + lit + ":[" + lit + "]}"
	case shapeBothNL:
		return "{" + lit + ":" + lit + "}\n"
	case shapeKV:
		return `{"k":` + lit + "}"
	}
	return lit
}

// decodedStrings extracts the decoded text(s) of the string(s) under test
// from a parsed output of the given shape.
func decodedStrings(sh shape, n *ref.Node) ([]string, bool) {
	switch sh {
	case shapeBare, shapeNL:
		if n.Kind == '"' {
			return []string{n.Str}, true
		}
	case shapeName:
		if n.Kind == '{' && len(n.Members) == 1 {
			return []string{n.Members[0].Name.Str}, true
		}
	case shapeField, shapeKV:
		if n.Kind == '{' && len(n.Members) == 1 && n.Members[0].Value.Kind == '"' {
			return []string{n.Members[0].Value.Str}, true
		}
	case shapeBoth:
		if n.Kind == '{' && len(n.Members) == 1 && n.Members[0].Value.Kind == '[' && len(n.Members[0].Value.Elems) == 1 && n.Members[0].Value.Elems[0].Kind == '"' {
			return []string{n.Members[0].Name.Str, n.Members[0].Value.Elems[0].Str}, true
		}
	case shapeBothNL:
		if n.Kind == '{' && len(n.Members) == 1 && n.Members[0].Value.Kind == '"' {
			return []string{n.Members[0].Name.Str, n.Members[0].Value.Str}, true
		}
	}
	return nil, false
}

// expectation for one produced output
type expect struct {
	ok       bool   // the call must succeed (else: must fail)
	decoded  string // text every string under test must decode to
	exact    string // exact literal, "" if only the weak oracles apply
	foldCase bool   // compare exact case-insensitively (hex digits of added escapes)
	keepRaw  bool   // ill-formed bytes may legitimately remain in the output
}

func checkOutput(path string, o Opts, sh shape, out []byte, err error, x expect) error {
	if !x.ok {
		if err == nil {
			return fmt.Errorf("%s %v: succeeded with output %q although the string contains invalid UTF-8 and AllowInvalidUTF8 is off", path, o, out)
		}
		return nil
	}
	if err != nil {
		return fmt.Errorf("%s %v: failed: %v", path, o, err)
	}
	if msg := scanForbidden(out, o); msg != "" {
		return fmt.Errorf("%s %v: output %q contains %s", path, o, out, msg)
	}
	n, perr := ref.Parse(out, ref.Opt{AllowInvalidUTF8: true, AllowDup: true})
	if perr != nil {
		return fmt.Errorf("%s %v: output %q is not valid JSON: %v", path, o, out, perr)
	}
	strs, okShape := decodedStrings(sh, n)
	if !okShape {
		return fmt.Errorf("%s %v: output %q does not have the expected structure", path, o, out)
	}
	for _, s := range strs {
		if s != x.decoded {
			return fmt.Errorf("%s %v: output %q decodes to %q, expected %q", path, o, out, s, x.decoded)
		}
	}
	if !x.keepRaw && !ref.WellFormedUTF8(string(out)) {
		return fmt.Errorf("%s %v: output %q contains ill-formed UTF-8 (each ill-formed byte must become U+FFFD)", path, o, out)
	}
	if x.exact != "" {
		want := wrap(sh, x.exact)
		same := string(out) == want
		if !same && x.foldCase {
			same = strings.EqualFold(string(out), want)
		}
		if !same {
			return fmt.Errorf("%s %v: output %q, expected %q", path, o, out, want)
		}
	}
	return nil
}

// ---------------------------------------------------------------------------
// sub-check "strings": a Go string (arbitrary bytes) on every quoting path.

// StrCase is an arbitrary byte string with an option set. Name additionally
// uses the string as a struct field name (json tag) when it is eligible.
// zoneT prints nothing but the zone abbreviation of its time.
type zoneT struct {
	F time.Time `json:",format:'-MST'"`
}

// zoneNamedT uses a named layout that ends in the zone abbreviation.
type zoneNamedT struct {
	F time.Time `json:",format:RFC822"`
}

type StrCase struct {
	S    []byte `json:"s"`
	O    Opts   `json:"opts"`
	Name bool   `json:"as_field_name"`
}

func classesOfText(prefix string, s string) (nontrivial bool) {
	var ctl, qb, html, js, del, mb2, mb3, mb4, bad, ascii bool
	for i := 0; i < len(s); {
		c := s[i]
		switch {
		case c < 0x20:
			ctl = true
		case c == '"' || c == '\\':
			qb = true
		case c == '<' || c == '>' || c == '&':
			html = true
		case c == 0x7f:
			del = true
		case c < 0x80:
			ascii = true
		}
		if c < 0x80 {
			i++
			continue
		}
		n := seqLen(s[i:])
		switch n {
		case 0:
			bad = true
			n = 1
		case 2:
			mb2 = true
		case 3:
			mb3 = true
			if s[i] == 0xe2 && s[i+1] == 0x80 && (s[i+2] == 0xa8 || s[i+2] == 0xa9) {
				js = true
			}
		case 4:
			mb4 = true
		}
		i += n
	}
	for _, c := range []struct {
		on   bool
		name string
	}{{ctl, "control-char"}, {qb, "quote-or-backslash"}, {html, "html-char(<>&)"}, {js, "U+2028/9"}, {del, "DEL"}, {mb2, "2-byte-seq"}, {mb3, "3-byte-seq"}, {mb4, "4-byte-seq"}, {bad, "ill-formed-utf8"}} {
		if c.on {
			rec.Class(prefix + c.name)
		}
	}
	_ = ascii
	return ctl || qb || html || js || del || mb2 || mb3 || mb4 || bad
}

// seqLen returns the length of the well-formed UTF-8 sequence at the start of
// s, or 0 (independent re-statement of Unicode Table 3-7 through ref).
func seqLen(s string) int {
	for n := 1; n <= 4 && n <= len(s); n++ {
		if ref.WellFormedUTF8(s[:n]) {
			return n
		}
	}
	return 0
}

var structCache sync.Map // tag -> reflect.Type

func fieldNameType(name string) reflect.Type {
	if t, ok := structCache.Load(name); ok {
		return t.(reflect.Type)
	}
	t := reflect.StructOf([]reflect.StructField{{Name: "F", Type: reflect.TypeOf(0), Tag: reflect.StructTag(`json:` + strconv.Quote(name))}})
	structCache.Store(name, t)
	return t
}

// nameEligible: the json tag grammar accepts any unescaped name that is valid
// UTF-8, non-empty, not "-" and free of comma, backslash, quotes and backtick.
func nameEligible(s string) bool {
	if s == "" || s == "-" || !ref.WellFormedUTF8(s) || strings.ContainsAny(s, ",\\'\"`") {
		return false
	}
	// the tag must survive reflect.StructTag.Lookup (strconv.Quote/Unquote round trip)
	v, ok := reflect.StructTag(`json:` + strconv.Quote(s)).Lookup("json")
	return ok && v == s
}

// RunStr decides one string case.
func RunStr(c StrCase) error {
	rec.Eval()
	s := string(c.S)
	o := c.O
	wf := ref.WellFormedUTF8(s)
	clean := ref.Sanitize(s)
	qMin, _ := ref.Quote(s, false, false)
	qOpt, _ := ref.Quote(s, o.HTML, o.JS)

	nt := classesOfText("str:", s)
	rec.Class("str:opts" + o.key())
	fp := cov.FP([]byte("str"), c.S, []byte(o.key()), []byte{b2(c.Name)})
	if nt {
		rec.NonTrivial(fp)
		rec.Sample(fp, func() any {
			return map[string]any{"sub": "strings", "string_quoted_by_go": strconv.Quote(s), "opts": o.String(), "well_formed": wf, "expected_literal": qOpt}
		})
	}

	var failure error
	if p := rt.Guard(func() { failure = strPaths(c, s, wf, clean, qMin, qOpt) }); p != nil {
		return fmt.Errorf("string %q %v: panic: %v", s, o, p)
	}
	return failure
}

func b2(b bool) byte {
	if b {
		return 1
	}
	return 0
}

func strPaths(c StrCase, s string, wf bool, clean, qMin, qOpt string) error {
	o := c.O
	opts := o.list()
	jopts := make([]json.Options, len(opts))
	for i, x := range opts {
		jopts[i] = x
	}

	// 1. AppendQuote / AppendUnquote (option-free functions)
	{
		got, err := jsontext.AppendQuote([]byte("pfx"), c.S)
		if string(got) != "pfx"+qMin {
			return fmt.Errorf("AppendQuote(%q) = %q; minimal literal is %q", s, got, "pfx"+qMin)
		}
		if (err != nil) != !wf {
			return fmt.Errorf("AppendQuote(%q) error = %v; well-formed input: %v", s, err, wf)
		}
		got2, err2 := jsontext.AppendQuote(nil, s)
		if string(got2) != qMin || (err2 != nil) != !wf {
			return fmt.Errorf("AppendQuote(string %q) = %q, %v; expected %q", s, got2, err2, qMin)
		}
		back, err := jsontext.AppendUnquote([]byte("pfx"), got2)
		if err != nil || string(back) != "pfx"+clean {
			return fmt.Errorf("AppendUnquote(AppendQuote(%q)) = %q, %v; expected %q", s, back, err, clean)
		}
		// the literal with the optional escapes must unquote to the same text
		back, err = jsontext.AppendUnquote(nil, qOpt)
		if err != nil || string(back) != clean {
			return fmt.Errorf("AppendUnquote(%q) = %q, %v; expected %q", qOpt, back, err, clean)
		}
	}

	x := expect{ok: wf || o.AllowBad, decoded: clean, exact: qOpt, foldCase: o.HTML || o.JS}

	// 2. Encoder.WriteToken(String(s)) as value and as object name
	{
		var buf bytes.Buffer
		enc := jsontext.NewEncoder(&buf, opts...)
		err := enc.WriteToken(jsontext.String(s))
		if e := checkOutput("WriteToken(String)", o, shapeNL, buf.Bytes(), err, x); e != nil {
			return e
		}
		buf.Reset()
		enc = jsontext.NewEncoder(&buf, opts...)
		err = enc.WriteToken(jsontext.BeginObject)
		if err == nil {
			err = enc.WriteToken(jsontext.String(s))
		}
		if err == nil {
			err = enc.WriteToken(jsontext.String(s))
		}
		if err == nil {
			err = enc.WriteToken(jsontext.EndObject)
		}
		if e := checkOutput("WriteToken(String) as name and value", o, shapeBothNL, buf.Bytes(), err, x); e != nil {
			return e
		}
	}

	// 3. json.Marshal of the string as value, map key, struct field value
	{
		b, err := json.Marshal(s, jopts...)
		if e := checkOutput("Marshal(string)", o, shapeBare, b, err, x); e != nil {
			return e
		}
		b, err = json.Marshal(map[string]int{s: 0}, jopts...)
		if e := checkOutput("Marshal(map key)", o, shapeName, b, err, x); e != nil {
			return e
		}
		b, err = json.Marshal(struct{ F string }{s}, jopts...)
		if e := checkOutput("Marshal(struct field value)", o, shapeField, b, err, x); e != nil {
			return e
		}
		b, err = json.Marshal(map[string]any{"k": s}, jopts...)
		if e := checkOutput("Marshal(string in any)", o, shapeKV, b, err, x); e != nil {
			return e
		}
	}

	// 4. user marshalers producing text
	{
		b, err := json.Marshal(textM{c.S}, jopts...)
		if e := checkOutput("Marshal(MarshalText output)", o, shapeBare, b, err, x); e != nil {
			return e
		}
		b, err = json.Marshal(appendM{c.S}, jopts...)
		if e := checkOutput("Marshal(AppendText output)", o, shapeBare, b, err, x); e != nil {
			return e
		}
		b, err = json.Marshal(map[textKey]int{textKey(s): 0}, jopts...)
		if e := checkOutput("Marshal(MarshalText map key)", o, shapeName, b, err, x); e != nil {
			return e
		}
		b, err = json.Marshal(tokM{s}, jopts...)
		if e := checkOutput("Marshal(MarshalJSONTo writing String token)", o, shapeBare, b, err, x); e != nil {
			return e
		}
		b, err = json.Marshal(struct{ F textM }{textM{c.S}}, jopts...)
		if e := checkOutput("Marshal(MarshalText output in struct field)", o, shapeField, b, err, x); e != nil {
			return e
		}
	}

	// 6. the string as the zone name that a time layout prints (format tag):
	// formatted times are JSON strings like any other
	if s != "" {
		tm := time.Unix(0, 0).In(time.FixedZone(s, 3600))
		for _, z := range []struct {
			v      any
			prefix string
		}{{zoneT{tm}, "-"}, {zoneNamedT{tm}, "01 Jan 70 01:00 "}} {
			x2 := x
			x2.decoded = z.prefix + x.decoded
			if x.exact != "" {
				x2.exact = `"` + z.prefix + x.exact[1:]
			}
			b, err := json.Marshal(z.v, append(append([]json.Options(nil), jopts...), json.ExperimentalSupportFormatTag(true))...)
			if e := checkOutput(fmt.Sprintf("Marshal(%T: time layout printing the zone name)", z.v), o, shapeField, b, err, x2); e != nil {
				return e
			}
		}
	}

	// 5. struct field name given by a json tag
	if c.Name {
		if nameEligible(s) {
			rec.Class("str:used-as-struct-field-name")
			v := reflect.New(fieldNameType(s)).Elem().Interface()
			b, err := json.Marshal(v, jopts...)
			if e := checkOutput("Marshal(struct field name from tag "+strconv.Quote(s)+")", o, shapeName, b, err, x); e != nil {
				return e
			}
		} else {
			rec.Class("str:not-eligible-as-struct-field-name")
		}
	}
	return nil
}

// ---------------------------------------------------------------------------
// sub-check "literals": a JSON string literal on the unquote / decode paths and
// on every raw pass-through path.

// LitCase is a JSON string literal (with its quotes) and an option set.
type LitCase struct {
	Lit []byte `json:"lit"`
	O   Opts   `json:"opts"`
}

func classesOfLiteral(lit []byte) (nontrivial bool) {
	body := lit
	if len(body) >= 2 {
		body = body[1 : len(body)-1]
	}
	var short, uesc, upper, surr, lone, unnecessary, solidus bool
	for i := 0; i < len(body); i++ {
		if body[i] != '\\' || i+1 >= len(body) {
			continue
		}
		switch body[i+1] {
		case 'u':
			uesc = true
			if i+6 <= len(body) {
				h := string(body[i+2 : i+6])
				if h != strings.ToLower(h) {
					upper = true
				}
				v, err := strconv.ParseUint(h, 16, 32)
				if err == nil {
					switch {
					case v >= 0xd800 && v <= 0xdbff:
						if i+12 <= len(body) && body[i+6] == '\\' && body[i+7] == 'u' {
							if w, err := strconv.ParseUint(string(body[i+8:i+12]), 16, 32); err == nil && w >= 0xdc00 && w <= 0xdfff {
								surr = true
								i += 11
								continue
							}
						}
						lone = true
					case v >= 0xdc00 && v <= 0xdfff:
						lone = true
					case v >= 0x20 && v != '"' && v != '\\':
						unnecessary = true
					case v == '\b' || v == '\f' || v == '\n' || v == '\r' || v == '\t':
						unnecessary = true // a shorter two-character escape exists
					}
				}
			}
			i += 5
		case '/':
			solidus = true
			i++
		default:
			short = true
			i++
		}
	}
	for _, c := range []struct {
		on   bool
		name string
	}{{short, "two-char-escape"}, {uesc, "u-escape"}, {upper, "u-escape-uppercase-hex"}, {surr, "surrogate-pair-escape"}, {lone, "unpaired-surrogate-escape"}, {unnecessary, "non-minimal-u-escape"}, {solidus, "escaped-solidus"}} {
		if c.on {
			rec.Class("lit:" + c.name)
		}
	}
	return short || uesc || solidus
}

// RunLit decides one literal case.
func RunLit(c LitCase) error {
	rec.Eval()
	o := c.O
	s, wf, ok := ref.Unquote(c.Lit)
	if !ok {
		rec.Class("lit:not-a-string-literal(skipped)")
		return nil
	}
	nt := classesOfLiteral(c.Lit)
	if classesOfText("lit:decoded-", s) {
		nt = true
	}
	if !wf {
		rec.Class("lit:ill-formed(utf8-or-surrogate)")
		nt = true
	}
	rec.Class("lit:opts" + o.key())
	fp := cov.FP([]byte("lit"), c.Lit, []byte(o.key()))
	if nt {
		rec.NonTrivial(fp)
		rec.Sample(fp, func() any {
			return map[string]any{"sub": "literals", "literal_quoted_by_go": strconv.Quote(string(c.Lit)), "opts": o.String(), "well_formed": wf, "decoded_quoted_by_go": strconv.Quote(s)}
		})
	}
	var failure error
	if p := rt.Guard(func() { failure = litPaths(c, s, wf) }); p != nil {
		return fmt.Errorf("literal %q %v: panic: %v", c.Lit, o, p)
	}
	return failure
}

func litPaths(c LitCase, s string, wf bool) error {
	o := c.O
	lit := c.Lit
	opts := o.list()
	jopts := make([]json.Options, len(opts))
	for i, x := range opts {
		jopts[i] = x
	}

	// 1. AppendUnquote
	{
		got, err := jsontext.AppendUnquote([]byte("pfx"), lit)
		if string(got) != "pfx"+s {
			return fmt.Errorf("AppendUnquote(%q) = %q; RFC 8259 meaning is %q", lit, got[min(3, len(got)):], s)
		}
		if (err != nil) != !wf {
			return fmt.Errorf("AppendUnquote(%q) error = %v; literal well-formed: %v", lit, err, wf)
		}
		got, err = jsontext.AppendUnquote(nil, string(lit))
		if string(got) != s || (err != nil) != !wf {
			return fmt.Errorf("AppendUnquote(string %q) = %q, %v; expected %q", lit, got, err, s)
		}
	}

	// 2. decoding paths
	decOK := wf || o.AllowBad
	{
		d := jsontext.NewDecoder(bytes.NewReader(lit), jsontext.AllowInvalidUTF8(o.AllowBad))
		tok, err := d.ReadToken()
		switch {
		case !decOK && err == nil:
			return fmt.Errorf("Decoder.ReadToken(%q) succeeded (%q) although the literal is ill-formed and AllowInvalidUTF8 is off", lit, tok.String())
		case decOK && err != nil:
			return fmt.Errorf("Decoder.ReadToken(%q) allowInvalidUTF8=%v failed: %v", lit, o.AllowBad, err)
		case decOK:
			if tok.Kind() != '"' || tok.String() != s {
				return fmt.Errorf("Decoder.ReadToken(%q).String() = %q; expected %q", lit, tok.String(), s)
			}
		}
		var str string
		err = json.Unmarshal(lit, &str, jsontext.AllowInvalidUTF8(o.AllowBad))
		switch {
		case !decOK && err == nil:
			return fmt.Errorf("Unmarshal(%q) into string succeeded (%q) although the literal is ill-formed and AllowInvalidUTF8 is off", lit, str)
		case decOK && err != nil:
			return fmt.Errorf("Unmarshal(%q) into string allowInvalidUTF8=%v failed: %v", lit, o.AllowBad, err)
		case decOK && str != s:
			return fmt.Errorf("Unmarshal(%q) into string = %q; expected %q", lit, str, s)
		}
		// the same literal arriving one byte at a time: every escape is consumed
		// in an earlier pass than the closing quote
		var str1 string
		err = json.UnmarshalRead(iotest.OneByteReader(bytes.NewReader(lit)), &str1, jsontext.AllowInvalidUTF8(o.AllowBad))
		switch {
		case !decOK && err == nil:
			return fmt.Errorf("UnmarshalRead(one byte at a time, %q) into string succeeded (%q) although the literal is ill-formed and AllowInvalidUTF8 is off", lit, str1)
		case decOK && err != nil:
			return fmt.Errorf("UnmarshalRead(one byte at a time, %q) into string allowInvalidUTF8=%v failed: %v", lit, o.AllowBad, err)
		case decOK && str1 != s:
			return fmt.Errorf("UnmarshalRead(one byte at a time, %q) into string = %q; expected %q", lit, str1, s)
		}
		var m map[string]any
		doc := append(append(append(append([]byte("{"), lit...), ':'), lit...), '}')
		err = json.Unmarshal(doc, &m, jsontext.AllowInvalidUTF8(o.AllowBad))
		switch {
		case !decOK && err == nil:
			return fmt.Errorf("Unmarshal(%q) into map succeeded although the literal is ill-formed and AllowInvalidUTF8 is off", doc)
		case decOK && err != nil:
			return fmt.Errorf("Unmarshal(%q) into map allowInvalidUTF8=%v failed: %v", doc, o.AllowBad, err)
		case decOK:
			v, present := m[s]
			if len(m) != 1 || !present || v != any(s) {
				return fmt.Errorf("Unmarshal(%q) into map = %q; expected {%q:%q}", doc, m, s, s)
			}
		}
	}

	// 3. raw pass-through paths
	x := expect{ok: wf || o.AllowBad, decoded: s}
	if o.Preserve {
		x.exact = ref.EscapeRawOnly(lit, o.HTML, o.JS)
		x.foldCase = o.HTML || o.JS
		x.keepRaw = o.AllowBad
	}
	// raw token from a decoder (cloned, so that it outlives the decoder)
	var rawTok jsontext.Token
	{
		d := jsontext.NewDecoder(bytes.NewReader(lit), jsontext.AllowInvalidUTF8(true))
		tok, err := d.ReadToken()
		if err != nil {
			return fmt.Errorf("Decoder.ReadToken(%q) with AllowInvalidUTF8 failed: %v", lit, err)
		}
		rawTok = tok.Clone()
		d.ReadToken()
	}
	both := wrap(shapeBoth, string(lit))
	{
		var buf bytes.Buffer
		enc := jsontext.NewEncoder(&buf, opts...)
		err := enc.WriteToken(rawTok)
		if e := checkOutput("WriteToken(raw token "+string(lit)+")", o, shapeNL, buf.Bytes(), err, x); e != nil {
			return e
		}
		buf.Reset()
		enc = jsontext.NewEncoder(&buf, opts...)
		err = enc.WriteToken(jsontext.BeginObject)
		if err == nil {
			err = enc.WriteToken(rawTok)
		}
		if err == nil {
			err = enc.WriteToken(rawTok)
		}
		if err == nil {
			err = enc.WriteToken(jsontext.EndObject)
		}
		if e := checkOutput("WriteToken(raw token "+string(lit)+") as name and value", o, shapeBothNL, buf.Bytes(), err, x); e != nil {
			return e
		}
		buf.Reset()
		enc = jsontext.NewEncoder(&buf, opts...)
		err = enc.WriteValue(jsontext.Value(lit))
		if e := checkOutput("WriteValue("+string(lit)+")", o, shapeNL, buf.Bytes(), err, x); e != nil {
			return e
		}
		buf.Reset()
		enc = jsontext.NewEncoder(&buf, opts...)
		err = enc.WriteValue(jsontext.Value(both))
		xb := x
		if e := checkOutput("WriteValue("+both+")", o, shapeBoth, bytes.TrimSuffix(buf.Bytes(), []byte("\n")), err, xb); e != nil {
			return e
		}
	}
	{
		v := jsontext.Value(bytes.Clone(lit))
		err := v.Format(opts...)
		if e := checkOutput("Value("+string(lit)+").Format", o, shapeBare, v, err, x); e != nil {
			return e
		}
		v = jsontext.Value(both)
		err = v.Format(opts...)
		if e := checkOutput("Value("+both+").Format", o, shapeBoth, v, err, x); e != nil {
			return e
		}
		out, err := jsontext.AppendFormat([]byte("pfx"), lit, opts...)
		if err == nil {
			if !bytes.HasPrefix(out, []byte("pfx")) {
				return fmt.Errorf("AppendFormat(%q) lost the dst prefix: %q", lit, out)
			}
			out = out[3:]
		}
		if e := checkOutput("AppendFormat("+string(lit)+")", o, shapeBare, out, err, x); e != nil {
			return e
		}
		out, err = jsontext.AppendFormat(nil, both, opts...)
		if e := checkOutput("AppendFormat("+both+")", o, shapeBoth, out, err, x); e != nil {
			return e
		}
	}
	{
		b, err := json.Marshal(jsontext.Value(lit), jopts...)
		if e := checkOutput("Marshal(jsontext.Value "+string(lit)+")", o, shapeBare, b, err, x); e != nil {
			return e
		}
		b, err = json.Marshal(rawM{lit}, jopts...)
		if e := checkOutput("Marshal(MarshalJSON output "+string(lit)+")", o, shapeBare, b, err, x); e != nil {
			return e
		}
		b, err = json.Marshal(rawM{[]byte(both)}, jopts...)
		if e := checkOutput("Marshal(MarshalJSON output "+both+")", o, shapeBoth, b, err, x); e != nil {
			return e
		}
		b, err = json.Marshal(map[string]jsontext.Value{"k": lit}, jopts...)
		if e := checkOutput("Marshal(map of jsontext.Value "+string(lit)+")", o, shapeKV, b, err, x); e != nil {
			return e
		}
		b, err = json.Marshal(rawTokM{rawTok}, jopts...)
		if e := checkOutput("Marshal(MarshalJSONTo writing raw token "+string(lit)+")", o, shapeBare, b, err, x); e != nil {
			return e
		}
		fo := append(append([]json.Options(nil), jopts...), json.WithMarshalers(json.MarshalFunc(func(v funcS) ([]byte, error) { return v.B, nil })))
		b, err = json.Marshal(funcS{lit}, fo...)
		if e := checkOutput("Marshal(MarshalFunc output "+string(lit)+")", o, shapeBare, b, err, x); e != nil {
			return e
		}
	}
	return nil
}

// Package c06 decides property C06: the Encoder enforces the JSON grammar and
// a rejected call has no effect.
package c06

import (
	"bytes"
	stdjson "encoding/json"
	"fmt"
	"io"
	"math"
	"strings"

	"github.com/go-json-experiment/json/jsontext"

	"verif/harness/cov"
	"verif/harness/rt"
)

var rec = cov.New()

// Op kinds.
const (
	KNull   = "null"
	KTrue   = "true"
	KFalse  = "false"
	KBO     = "{"
	KEO     = "}"
	KBA     = "["
	KEA     = "]"
	KZero   = "zero"   // the zero Token{}
	KStr    = "str"    // jsontext.String(S)
	KInt    = "int"    // jsontext.Int(int64(N))
	KUint   = "uint"   // jsontext.Uint(N)
	KF64    = "f64"    // jsontext.Float(Float64frombits(N))
	KF32    = "f32"    // jsontext.Float32(Float32frombits(N))
	KRaw    = "rawtok" // token read from a Decoder over S and cloned
	KVal    = "value"  // WriteValue(S)
	KNest   = "nest"   // WriteValue of N nested empty containers, arrays or (S = "{") objects {"a":{"a":...{}}}
	KPushA  = "push["  // macro: N x WriteToken('[')
	KPushO  = "push{"  // macro: N x (WriteToken('{'), WriteToken(String("a")))
	KUnwind = "unwind" // macro: close up to N open containers (writing null for a pending member value)
)

// Op is one call (or macro of calls) on the encoder.
type Op struct {
	K string `json:"k"`
	S []byte `json:"s,omitempty"`
	N uint64 `json:"n,omitempty"`
}

// Case is one call sequence under one option set. Swap exchanges the writers
// of the encoder under test (default *bytes.Buffer) and of its twin (default
// a plain recording io.Writer).
type Case struct {
	Opts Opts `json:"opts"`
	Ops  []Op `json:"ops"`
	Swap bool `json:"swap,omitempty"`
}

// Options builds the jsontext options of o.
func (o Opts) Options() []jsontext.Options {
	var out []jsontext.Options
	tri := func(v int, f func(bool) jsontext.Options) {
		if v != 0 {
			out = append(out, f(v == 1))
		}
	}
	if o.Multiline == 1 || (o.Multiline == 2 && o.Indent == nil && o.Prefix == nil) {
		out = append(out, jsontext.Multiline(o.Multiline == 1))
	}
	tri(o.SpaceColon, jsontext.SpaceAfterColon)
	tri(o.SpaceComma, jsontext.SpaceAfterComma)
	if o.Indent != nil {
		out = append(out, jsontext.WithIndent(*o.Indent))
	}
	if o.Prefix != nil {
		out = append(out, jsontext.WithIndentPrefix(*o.Prefix))
	}
	if o.HTML {
		out = append(out, jsontext.EscapeForHTML(true))
	}
	if o.JS {
		out = append(out, jsontext.EscapeForJS(true))
	}
	if o.AllowDup {
		out = append(out, jsontext.AllowDuplicateNames(true))
	}
	if o.AllowUTF8 {
		out = append(out, jsontext.AllowInvalidUTF8(true))
	}
	if o.Preserve {
		out = append(out, jsontext.PreserveRawStrings(true))
	}
	if o.CanonInts {
		out = append(out, jsontext.CanonicalizeRawInts(true))
	}
	if o.CanonFloats {
		out = append(out, jsontext.CanonicalizeRawFloats(true))
	}
	if o.Reorder {
		out = append(out, jsontext.ReorderRawObjects(true))
	}
	return out
}

// Token builds the jsontext.Token of a primitive token op.
func (op Op) Token() (jsontext.Token, error) {
	switch op.K {
	case KNull:
		return jsontext.Null, nil
	case KTrue:
		return jsontext.True, nil
	case KFalse:
		return jsontext.False, nil
	case KBO:
		return jsontext.BeginObject, nil
	case KEO:
		return jsontext.EndObject, nil
	case KBA:
		return jsontext.BeginArray, nil
	case KEA:
		return jsontext.EndArray, nil
	case KZero:
		return jsontext.Token{}, nil
	case KStr:
		return jsontext.String(string(op.S)), nil
	case KInt:
		return jsontext.Int(int64(op.N)), nil
	case KUint:
		return jsontext.Uint(op.N), nil
	case KF64:
		return jsontext.Float(math.Float64frombits(op.N)), nil
	case KF32:
		return jsontext.Float32(math.Float32frombits(uint32(op.N))), nil
	case KRaw:
		src, skip := op.S, 0
		switch string(src) {
		case "}":
			src, skip = []byte("{}"), 1 // a decoder only yields a closing delimiter after its opener
		case "]":
			src, skip = []byte("[]"), 1
		}
		d := jsontext.NewDecoder(bytes.NewReader(src), jsontext.AllowInvalidUTF8(true), jsontext.AllowDuplicateNames(true))
		t, err := d.ReadToken()
		for ; skip > 0 && err == nil; skip-- {
			t, err = d.ReadToken()
		}
		if err != nil {
			return jsontext.Token{}, fmt.Errorf("harness: raw token %q unreadable: %v", op.S, err)
		}
		return t.Clone(), nil
	}
	return jsontext.Token{}, fmt.Errorf("harness: op %q is not a token", op.K)
}

// Value returns the argument of WriteValue for a value op.
func (op Op) Value() []byte {
	if op.K == KNest {
		return Nest(int(min(op.N, maxMacro)), string(op.S) == "{")
	}
	return op.S
}

// MaxMacro bounds the expansion of one macro op.
const MaxMacro = maxMacro

// Recorder is a plain io.Writer (not a *bytes.Buffer) recording every Write.
type Recorder struct {
	Buf   []byte
	Calls int
}

func (r *Recorder) Write(p []byte) (int, error) {
	r.Buf = append(r.Buf, p...)
	r.Calls++
	return len(p), nil
}

type sink interface {
	io.Writer
	got() []byte
}

type bufSink struct{ bytes.Buffer }

func (b *bufSink) got() []byte { return b.Bytes() }

type recSink struct{ Recorder }

func (r *recSink) got() []byte { return r.Buf }

// enc is an encoder with its writer.
type enc struct {
	e *jsontext.Encoder
	w sink
}

func newEnc(o Opts, plain bool) (*enc, error) {
	x := &enc{}
	var w io.Writer
	if plain {
		r := &recSink{}
		x.w, w = r, r
	} else {
		b := &bufSink{}
		x.w, w = b, &b.Buffer // hand the encoder a real *bytes.Buffer
	}
	if p := rt.Guard(func() { x.e = jsontext.NewEncoder(w, o.Options()...) }); p != nil {
		return nil, fmt.Errorf("NewEncoder panicked: %v", p)
	}
	return x, nil
}

// call performs a primitive op; err is the library's verdict.
func (x *enc) call(op Op) (err error, herr error) {
	if op.K == KVal || op.K == KNest {
		v := op.Value()
		if p := rt.Guard(func() { err = x.e.WriteValue(jsontext.Value(v)) }); p != nil {
			return nil, fmt.Errorf("WriteValue(%s) panicked: %v", op, p)
		}
		return err, nil
	}
	var tok jsontext.Token
	var terr error
	if p := rt.Guard(func() { tok, terr = op.Token() }); p != nil {
		return nil, fmt.Errorf("building token %s panicked: %v", op, p)
	}
	if terr != nil {
		return nil, terr
	}
	if p := rt.Guard(func() { err = x.e.WriteToken(tok) }); p != nil {
		// WriteToken documents no panic, not even for the zero Token (it
		// reports an error), so every panic is a violation.
		return nil, fmt.Errorf("WriteToken(%s) panicked: %v", op, p)
	}
	return err, nil
}

func (op Op) String() string {
	switch op.K {
	case KStr, KRaw, KVal:
		s := op.S
		if len(s) > 80 {
			return fmt.Sprintf("%s(%q...len %d)", op.K, s[:80], len(s))
		}
		return fmt.Sprintf("%s(%q)", op.K, s)
	case KInt:
		return fmt.Sprintf("int(%d)", int64(op.N))
	case KUint:
		return fmt.Sprintf("uint(%d)", op.N)
	case KF64:
		return fmt.Sprintf("f64(%v)", math.Float64frombits(op.N))
	case KF32:
		return fmt.Sprintf("f32(%v)", math.Float32frombits(uint32(op.N)))
	case KPushA, KPushO, KUnwind, KFill, KTwins:
		return fmt.Sprintf("%s x%d", op.K, op.N)
	case KNest:
		return fmt.Sprintf("nest(%q x%d)", op.S, op.N)
	}
	return op.K
}

type lvl struct {
	k jsontext.Kind
	n int64
}

// snap is the observable coder state.
type snap struct {
	off   int64
	depth int
	lv    []lvl // all levels (full) or the innermost few (light)
	ptr   string
	full  bool
	wlen  int
}

const lightLevels = 3

func (x *enc) snap(full bool) (s snap, herr error) {
	if p := rt.Guard(func() {
		s.off = x.e.OutputOffset()
		s.depth = x.e.StackDepth()
		lo := 0
		if !full && s.depth+1 > lightLevels {
			lo = s.depth + 1 - lightLevels
		}
		s.lv = make([]lvl, 0, s.depth+1-lo)
		for i := lo; i <= s.depth; i++ {
			k, n := x.e.StackIndex(i)
			s.lv = append(s.lv, lvl{k, n})
		}
		if full {
			s.ptr = string(x.e.StackPointer())
		}
	}); p != nil {
		return s, fmt.Errorf("state accessor panicked: %v", p)
	}
	s.full = full
	s.wlen = len(x.w.got())
	return s, nil
}

func (a snap) diff(b snap) string {
	switch {
	case a.off != b.off:
		return fmt.Sprintf("OutputOffset %d vs %d", a.off, b.off)
	case a.depth != b.depth:
		return fmt.Sprintf("StackDepth %d vs %d", a.depth, b.depth)
	case len(a.lv) != len(b.lv):
		return fmt.Sprintf("levels %d vs %d", len(a.lv), len(b.lv))
	case a.ptr != b.ptr:
		return fmt.Sprintf("StackPointer %s vs %s", clipPtr(a.ptr, b.ptr), clipPtr(b.ptr, a.ptr))
	}
	base := a.depth + 1 - len(a.lv)
	for i := range a.lv {
		if a.lv[i] != b.lv[i] {
			return fmt.Sprintf("StackIndex(%d) (%q,%d) vs (%q,%d)", base+i, byte(a.lv[i].k), a.lv[i].n, byte(b.lv[i].k), b.lv[i].n)
		}
	}
	return ""
}

// clipPtr renders pointer p, eliding most of a long prefix shared with q.
func clipPtr(p, q string) string {
	i := 0
	for i < len(p) && i < len(q) && p[i] == q[i] {
		i++
	}
	if i > 60 {
		return fmt.Sprintf("%q...(%d bytes in common)...%q", p[:20], i-40, p[i-20:])
	}
	if len(p) > 300 {
		return fmt.Sprintf("%q...(%d bytes)", p[:300], len(p))
	}
	return fmt.Sprintf("%q", p)
}

// vsModel compares a snapshot with the model's documented state.
func (s snap) vsModel(m *Model) string {
	if s.depth != m.Depth() {
		return fmt.Sprintf("StackDepth %d, model %d", s.depth, m.Depth())
	}
	base := s.depth + 1 - len(s.lv)
	for i, l := range s.lv {
		k, n := m.Level(base + i)
		if byte(l.k) != k || l.n != n {
			return fmt.Sprintf("StackIndex(%d) = (%q,%d), model (%q,%d)", base+i, byte(l.k), l.n, k, n)
		}
	}
	if s.full {
		if want := m.Pointer(); s.ptr != want {
			return fmt.Sprintf("StackPointer %s, model %s", clipPtr(s.ptr, want), clipPtr(want, s.ptr))
		}
	}
	if s.depth > 0 && !m.Amb && s.off != int64(len(m.Exp)) {
		return fmt.Sprintf("OutputOffset %d, but the accepted tokens serialise to %d bytes", s.off, len(m.Exp))
	}
	return ""
}

// Limits protecting the harness from absurd replay files.
const (
	maxMacro     = 10200
	maxCalls     = 60000
	smallOut     = 2048 // outputs up to this size are re-compared in full after every call
	fullDepth    = 48   // full snapshots after every call up to this depth
	deepRejected = 24   // full rollback snapshots for this many rejected calls beyond fullDepth
)

// runner executes one case.
type runner struct {
	c        Case
	m        *Model
	a, b     *enc
	calls    int
	accepted int
	rejected int
	// evidence
	rejThenAcc   bool
	sawReject    bool
	whys         map[string]bool
	maxDepth     int
	zeroAfterRej bool
	deepRej      int
	trace        [12]traced
	ntrace       int
	okA, okB     int // delivered bytes already compared with the expected output
}

type traced struct {
	op    Op
	legal bool
}

func (r *runner) fail(format string, args ...any) error {
	msg := fmt.Sprintf(format, args...)
	var tr []string
	for i := max(0, r.ntrace-len(r.trace)); i < r.ntrace; i++ {
		t := r.trace[i%len(r.trace)]
		tr = append(tr, fmt.Sprintf("%s=>%v", t.op, t.legal))
	}
	return fmt.Errorf("%s\n  options: %s\n  last calls: %v\n  expected output so far: %s", msg, r.c.Opts.JSON(), tr, clip(r.m.Exp))
}

func clip(b []byte) string {
	if len(b) > 300 {
		return fmt.Sprintf("%q...(%d bytes)", b[:300], len(b))
	}
	return fmt.Sprintf("%q", b)
}

// JSON renders o for messages.
func (o Opts) JSON() string { b, _ := stdjson.Marshal(o); return string(b) }

func (r *runner) step(op Op) error {
	r.calls++
	if r.calls > maxCalls {
		return nil
	}
	m := r.m
	in := m.Classify(op)
	if len(in.Bad) > 7 && in.Bad[:7] == "harness" {
		return fmt.Errorf("harness: cannot interpret op %s: %s", op, in.Bad)
	}
	legal, why := m.Legal(in)
	r.trace[r.ntrace%len(r.trace)] = traced{op, legal}
	r.ntrace++
	depthBefore := m.Depth()
	full := depthBefore <= fullDepth

	var pre snap
	var preBytes []byte
	if !legal {
		if !full && r.deepRej < deepRejected {
			r.deepRej++
			full = true
		}
		var herr error
		if pre, herr = r.a.snap(full); herr != nil {
			return r.fail("%v", herr)
		}
		if preBytes = r.a.w.got(); len(preBytes) <= smallOut {
			preBytes = bytes.Clone(preBytes) // a *bytes.Buffer view would alias later writes
		}
	}
	err, herr := r.a.call(op)
	if herr != nil {
		return r.fail("%v", herr)
	}
	if (err == nil) != legal {
		if legal {
			return r.fail("call #%d %s is legal per the model but was rejected: %v", r.calls, op, err)
		}
		return r.fail("call #%d %s is illegal (%s) but was accepted", r.calls, op, why)
	}
	if !legal {
		r.rejected++
		r.sawReject = true
		r.whys[why] = true
		post, herr := r.a.snap(full)
		if herr != nil {
			return r.fail("after rejected call #%d %s: %v", r.calls, op, herr)
		}
		if d := pre.diff(post); d != "" {
			return r.fail("rejected call #%d %s (%s) changed the coder state: %s (before vs after)", r.calls, op, why, d)
		}
		now := r.a.w.got()
		if len(now) != len(preBytes) || (len(now) <= smallOut && !bytes.Equal(now, preBytes)) {
			return r.fail("rejected call #%d %s (%s) changed the bytes delivered to the writer: %d -> %d bytes", r.calls, op, why, len(preBytes), len(now))
		}
		if !m.Amb && !r.prefixOK(now, &r.okA) {
			return r.fail("after rejected call #%d %s the delivered bytes %s are not a prefix of the expected output", r.calls, op, clip(tailDiff(now, m.Exp)))
		}
		return nil
	}

	// accepted: the twin (which never sees rejected calls) must agree
	r.accepted++
	if r.sawReject {
		r.rejThenAcc = true
	}
	m.Apply(in)
	if m.Depth() > r.maxDepth {
		r.maxDepth = m.Depth()
	}
	errB, herr := r.b.call(op)
	if herr != nil {
		return r.fail("twin: %v", herr)
	}
	if errB != nil {
		return r.fail("call #%d %s was accepted by the encoder that had received %d rejected calls, but rejected by the twin that never received them: %v", r.calls, op, r.rejected, errB)
	}
	full = m.Depth() <= fullDepth
	sa, herr := r.a.snap(full)
	if herr != nil {
		return r.fail("%v", herr)
	}
	sb, herr := r.b.snap(full)
	if herr != nil {
		return r.fail("twin: %v", herr)
	}
	if d := sa.diff(sb); d != "" {
		return r.fail("after accepted call #%d %s the encoder (%d rejected calls so far) and its twin (none) differ: %s", r.calls, op, r.rejected, d)
	}
	if d := sa.vsModel(m); d != "" {
		return r.fail("after accepted call #%d %s: %s", r.calls, op, d)
	}
	ga, gb := r.a.w.got(), r.b.w.got()
	if m.Depth() == 0 {
		if r.sawReject {
			r.zeroAfterRej = true
		}
		if !bytes.Equal(ga, gb) {
			return r.fail("at depth 0 after call #%d %s the encoder delivered %s but its twin %s", r.calls, op, clip(ga), clip(gb))
		}
		if !m.Amb && (len(ga) != len(m.Exp) || !r.prefixOK(ga, &r.okA)) {
			return r.fail("at depth 0 after call #%d %s the delivered bytes are\n  %s\nbut the accepted tokens serialise to\n  %s", r.calls, op, clip(tailDiff(ga, m.Exp)), clip(tailDiff(m.Exp, ga)))
		}
	} else if !m.Amb {
		if !r.prefixOK(ga, &r.okA) {
			return r.fail("after call #%d %s the delivered bytes %s are not a prefix of the expected output", r.calls, op, clip(tailDiff(ga, m.Exp)))
		}
		if !r.prefixOK(gb, &r.okB) {
			return r.fail("twin: after call #%d %s the delivered bytes %s are not a prefix of the expected output", r.calls, op, clip(tailDiff(gb, m.Exp)))
		}
	}
	return nil
}

// prefixOK reports whether got is a prefix of the expected output. Bytes
// already compared (*done) are not compared again unless the output is small;
// finalCheck compares everything once more at the end of the case.
func (r *runner) prefixOK(got []byte, done *int) bool {
	exp := r.m.Exp
	if len(got) > len(exp) {
		return false
	}
	from := *done
	if len(got) <= smallOut || from > len(got) {
		from = 0
	}
	if !bytes.Equal(got[from:], exp[from:len(got)]) {
		return false
	}
	*done = len(got)
	return true
}

func (r *runner) finalCheck() error {
	ga, gb := r.a.w.got(), r.b.w.got()
	if r.m.Amb {
		return nil
	}
	if !bytes.HasPrefix(r.m.Exp, ga) {
		return r.fail("at the end the delivered bytes %s are not a prefix of the expected output", clip(tailDiff(ga, r.m.Exp)))
	}
	if !bytes.HasPrefix(r.m.Exp, gb) {
		return r.fail("twin: at the end the delivered bytes %s are not a prefix of the expected output", clip(tailDiff(gb, r.m.Exp)))
	}
	if r.m.Depth() == 0 && (len(ga) != len(r.m.Exp) || len(gb) != len(r.m.Exp)) {
		return r.fail("at the end (depth 0) %d / %d bytes were delivered, expected %d", len(ga), len(gb), len(r.m.Exp))
	}
	return nil
}

// tailDiff returns a starting shortly before the first difference with b.
func tailDiff(a, b []byte) []byte {
	i := 0
	for i < len(a) && i < len(b) && a[i] == b[i] {
		i++
	}
	if i > 40 {
		return append([]byte("..."), a[i-40:]...)
	}
	return a
}

// Expand performs op through step, expanding macros against the model state.
func Expand(m *Model, op Op, step func(Op) error) error {
	n := int(min(op.N, maxMacro))
	switch op.K {
	case KPushA:
		for i := 0; i < n; i++ {
			if err := step(Op{K: KBA}); err != nil {
				return err
			}
		}
	case KPushO:
		for i := 0; i < n; i++ {
			if err := step(Op{K: KBO}); err != nil {
				return err
			}
			if err := step(Op{K: KStr, S: []byte("a")}); err != nil {
				return err
			}
		}
	case KFill:
		for i := 0; i < n; i++ {
			if err := step(Op{K: KStr, S: []byte(fmt.Sprintf("m%d", i))}); err != nil {
				return err
			}
			if err := step(Op{K: KInt, N: uint64(i)}); err != nil {
				return err
			}
		}
	case KTwins:
		for rep := 0; rep < 2; rep++ {
			if err := step(Op{K: KBO}); err != nil {
				return err
			}
			for i := 0; i < n; i++ {
				name := fmt.Sprintf("m%d", i)
				name += strings.Repeat("x", 49-len(name))
				if err := step(Op{K: KStr, S: []byte(name)}); err != nil {
					return err
				}
				if err := step(Op{K: KInt, N: uint64(i)}); err != nil {
					return err
				}
			}
			if err := step(Op{K: KEO}); err != nil {
				return err
			}
		}
	case KUnwind:
		for i := 0; i < n && m.Depth() > 0; i++ {
			if m.NeedValue() {
				if err := step(Op{K: KNull}); err != nil {
					return err
				}
			}
			cl := KEA
			if m.TopIsObject() {
				cl = KEO
			}
			if err := step(Op{K: cl}); err != nil {
				return err
			}
		}
	default:
		return step(op)
	}
	return nil
}

func (r *runner) run() error {
	for _, op := range r.c.Ops {
		if err := Expand(r.m, op, r.step); err != nil {
			return err
		}
	}
	return nil
}

// Run decides one case.
func Run(c Case) error {
	rec.Eval()
	r := &runner{c: c, m: NewModel(c.Opts), whys: map[string]bool{}}
	var err error
	if r.a, err = newEnc(c.Opts, c.Swap); err != nil {
		return err
	}
	if r.b, err = newEnc(c.Opts, !c.Swap); err != nil {
		return err
	}
	if err = r.run(); err == nil {
		err = r.finalCheck()
	}
	r.evidence()
	return err
}

func (r *runner) evidence() {
	c := r.c
	for w := range r.whys {
		rec.Class("reject:" + w)
	}
	switch {
	case r.maxDepth >= MaxDepth:
		rec.Class("depth=10000")
	case r.maxDepth >= 100:
		rec.Class("depth>=100")
	case r.maxDepth >= 5:
		rec.Class("depth>=5")
	}
	if r.m.Amb {
		rec.Class("reorder-tie-output-not-compared")
	}
	if r.zeroAfterRej {
		rec.Class("depth0-reached-after-rejection")
	}
	if c.Opts.Multi() {
		rec.Class("opts:multiline")
	}
	if c.Opts.AllowDup {
		rec.Class("opts:allow-dup")
	}
	if c.Opts.AllowUTF8 {
		rec.Class("opts:allow-invalid-utf8")
	}
	if c.Opts.Preserve || c.Opts.CanonInts || c.Opts.CanonFloats || c.Opts.Reorder {
		rec.Class("opts:raw-transform")
	}
	if r.rejThenAcc {
		rec.Class("rejected-then-accepted")
		raw, _ := stdjson.Marshal(c)
		fp := cov.FP(raw)
		rec.NonTrivial(fp)
		rec.Sample(fp, func() any {
			return map[string]any{"case": c, "calls": r.calls, "accepted": r.accepted, "rejected": r.rejected, "output": clip(r.m.Exp)}
		})
	} else if r.sawReject {
		rec.Class("rejected-only-at-end")
	} else {
		rec.Class("no-rejection")
	}
}

package c06

import (
	"testing"

	"verif/harness/rt"
)

// FuzzSeqs lets the native fuzzer drive the call-sequence generator (coverage-guided).
func FuzzSeqs(f *testing.F) {
	rt.FuzzRapid(f, "C06", "seqs", GenCase, Run)
}

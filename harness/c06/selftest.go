package c06

import (
	"fmt"

	"verif/harness/ref"
	"verif/harness/rt"
)

var selfDocs = []string{
	`null`, `[]`, `{}`, `[[]]`, `[{}]`, `{"a":{}}`, `{"a":[]}`, `[1]`, `[1,2]`, `{"a":1}`, `{"a":1,"b":2}`,
	`{"a":[1,{"b":[[],{}],"c":"x"},[2,[3]]],"d":{"e":{"f":null}},"g":true}`,
	`["<\u003c>","\u2028\u00e9é",1E2,-0,-0.0,12345678901234567890,1e400,"\ud83d\ude00","\/"]`,
	`[[[1,[2,[3,[]]]]],{"k":{"k":{"k":{}}}}]`,
}

// selfTest cross-checks the package's own streaming model (delimiters,
// whitespace and scalar spelling derived from the option documentation)
// against the shared reference formatter ref.Format on token streams of valid
// documents. A disagreement is an oracle failure, never a violation.
func selfTest(e *rt.Env) {
	optSets := append([]Opts{}, EnumOpts...)
	optSets = append(optSets, Opts{Multiline: 1, SpaceColon: 2, SpaceComma: 1, Indent: sp(""), Prefix: sp("\t")},
		Opts{SpaceColon: 1}, Opts{SpaceComma: 1, CanonInts: true}, Opts{Multiline: 2, Indent: sp(" ")}, Opts{HTML: true}, Opts{JS: true, Preserve: true})
	bad := 0
	for _, o := range optSets {
		o.Reorder = false // reordering applies to raw values only, not to token streams
		for _, ds := range selfDocs {
			doc := []byte(ds)
			po := ref.Opt{AllowInvalidUTF8: o.AllowUTF8, AllowDup: o.AllowDup}
			node, perr := ref.Parse(doc, po)
			toks, terr := ref.Tokens(doc, po)
			if perr != nil || terr != nil {
				e.OracleFail(fmt.Sprintf("C06 self-test: reference rejects %q: %v %v", ds, perr, terr))
				return
			}
			want := ref.Format(doc, node, o.fmtOpt(0)).Out + "\n"
			m := NewModel(o)
			for _, tk := range toks {
				in := m.Classify(Op{K: KRaw, S: doc[tk.Start:tk.End]})
				if ok, why := m.Legal(in); !ok {
					e.OracleFail(fmt.Sprintf("C06 self-test: model rejects token %q of valid %q: %s", doc[tk.Start:tk.End], ds, why))
					return
				}
				m.Apply(in)
				if m.Depth() != tk.Depth || m.Pointer() != tk.Pointer {
					e.OracleFail(fmt.Sprintf("C06 self-test: after token %q of %q model depth/pointer %d %q, ref.Tokens %d %q", doc[tk.Start:tk.End], ds, m.Depth(), m.Pointer(), tk.Depth, tk.Pointer))
					return
				}
				for i, l := range tk.Levels {
					if k, n := m.Level(i); k != l.Kind || n != l.Length {
						e.OracleFail(fmt.Sprintf("C06 self-test: after token %q of %q model level %d is (%q,%d), ref.Tokens (%q,%d)", doc[tk.Start:tk.End], ds, i, k, n, l.Kind, l.Length))
						return
					}
				}
			}
			if string(m.Exp) != want && bad < 3 {
				bad++
				e.OracleFail(fmt.Sprintf("C06 self-test: token-stream model formats %q under %s as %q, ref.Format as %q", ds, o.JSON(), m.Exp, want))
			}
			// the whole document as one raw value
			m2 := NewModel(o)
			in := m2.Classify(Op{K: KVal, S: doc})
			if ok, why := m2.Legal(in); !ok {
				e.OracleFail(fmt.Sprintf("C06 self-test: model rejects valid value %q: %s", ds, why))
				return
			}
			m2.Apply(in)
			if string(m2.Exp) != want {
				e.OracleFail(fmt.Sprintf("C06 self-test: value model formats %q as %q, ref.Format as %q", ds, m2.Exp, want))
				return
			}
		}
	}
}

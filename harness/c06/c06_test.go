package c06

import (
	"os"
	"runtime"
	"runtime/debug"
	"testing"

	"verif/harness/rt"
)

func TestCheck(t *testing.T) {
	// a shard is one core's worth of work; fewer GC workers and cycles make
	// the many small cases markedly cheaper on the shared machine
	runtime.GOMAXPROCS(2)
	debug.SetGCPercent(400)
	e := rt.Setup(t, "C06")
	defer e.Finish()
	rec = e.Rec

	selfTest(e)

	maxLen := 4
	if e.Thorough() {
		maxLen = 5
	}
	only := os.Getenv("C06_ONLY")
	if only == "" || only == "enum" {
	rt.Enum(e, "enum-seqs", func(yield func(Case) bool) { EnumSeqs(e, maxLen, yield) }, Run)
	}
	if only == "" || only == "seqs" {
	rt.Rapid(e, "seqs", 800_000, 6_000_000, GenCase, Run)
	}
	if only == "" || only == "deep" {
	rt.Rapid(e, "deep", 1_600, 9_600, GenDeep, Run)
	}
}

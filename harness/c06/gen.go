package c06

import (
	"fmt"
	"math"
	"strings"

	"pgregory.net/rapid"

	"verif/harness/cov"
	"verif/harness/gen"
	"verif/harness/rt"
)

// KFill is a macro: N x (WriteToken(String("m<i>")), WriteToken(Int(i))).
const KFill = "fill"

// KTwins is a macro: two sibling objects in a row, each holding the same N
// members with 49-byte names (the name set passes 1 KiB at about 21 names and
// is then re-used for the sibling).
const KTwins = "twins"

func sp(s string) *string { return &s }

// Alphabet of the bounded-exhaustive layer.
var Alphabet = []Op{
	{K: KNull},
	{K: KBO},
	{K: KEO},
	{K: KBA},
	{K: KEA},
	{K: KStr, S: []byte("a")},
	{K: KRaw, S: []byte(`"\u0061"`)},       // "a" respelled with an escape
	{K: KStr, S: []byte("\xff")},           // ill-formed UTF-8
	{K: KInt, N: uint64(math.MaxUint64 - 6)}, // Int(-7)
	{K: KF64, N: math.Float64bits(math.NaN())}, // Float(NaN) is the string "NaN"
	{K: KZero},
	{K: KVal, S: []byte(`{"a":1,"a":2}`)}, // duplicate names
	{K: KVal, S: []byte(` "a" `)},         // a string (usable as a name) with surrounding whitespace
	{K: KVal, S: []byte(`[1,`)},           // truncated
	{K: KVal, S: []byte(`[{"b":-0.0}]`)},  // valid container
	{K: KVal, S: []byte(`"a" 2`)},         // two values (the first would be a legal name)
}

// EnumOpts are the option sets of the bounded-exhaustive layer.
var EnumOpts = []Opts{
	{},
	{Multiline: 1},
	{Indent: sp("  "), Prefix: sp(" "), SpaceComma: 1, SpaceColon: 2},
	{AllowDup: true, AllowUTF8: true},
	{Preserve: true, HTML: true, JS: true, SpaceColon: 1, SpaceComma: 1},
	{CanonInts: true, CanonFloats: true, Reorder: true, AllowUTF8: true},
	{AllowDup: true, Reorder: true, Multiline: 1, Preserve: true},
}

// EnumSeqs enumerates every sequence over Alphabet up to the tier's length
// bound under every option set of EnumOpts.
func EnumSeqs(e *rt.Env, maxLen int, yield func(Case) bool) {
	k := int64(len(Alphabet))
	var idx, total int64
	complete := true
	for l := 1; l <= maxLen && complete; l++ {
		n := int64(1)
		for i := 0; i < l; i++ {
			n *= k
		}
		for i := int64(0); i < n && complete; i++ {
			idx++
			if !e.Mine(idx) {
				continue
			}
			ops := make([]Op, l)
			x := i
			for j := 0; j < l; j++ {
				ops[j] = Alphabet[x%k]
				x /= k
			}
			for oi, o := range EnumOpts {
				total++
				if !yield(Case{Opts: o, Ops: ops, Swap: (i+int64(oi))%2 == 1}) {
					complete = false
					break
				}
			}
		}
	}
	e.Rec.AddPart(cov.Part{Name: fmt.Sprintf("all call sequences of length <=%d over the %d-symbol alphabet x %d option sets", maxLen, len(Alphabet), len(EnumOpts)), Size: total, Complete: complete})
}

// GenOpts draws an option set.
func GenOpts(t *rapid.T) Opts {
	var o Opts
	b := func(name string, oneIn int) bool { return rapid.IntRange(0, oneIn-1).Draw(t, name) == oneIn-1 } // shrinks to false
	switch rapid.IntRange(0, 5).Draw(t, "ws") {
	case 0, 1: // compact
	case 2:
		o.Multiline = 1
	default:
		o.Multiline = rapid.IntRange(0, 2).Draw(t, "multiline")
		if b("indent?", 2) {
			o.Indent = sp(rapid.SampledFrom([]string{"", " ", "  ", "\t", " \t"}).Draw(t, "indent"))
		}
		if b("prefix?", 3) {
			o.Prefix = sp(rapid.SampledFrom([]string{"", " ", "\t\t"}).Draw(t, "prefix"))
		}
	}
	if b("sp?", 2) {
		o.SpaceColon = rapid.IntRange(0, 2).Draw(t, "colon")
		o.SpaceComma = rapid.IntRange(0, 2).Draw(t, "comma")
	}
	o.HTML = b("html", 4)
	o.JS = b("js", 4)
	o.AllowDup = b("dup", 3)
	o.AllowUTF8 = b("utf8", 3)
	o.Preserve = b("preserve", 3)
	o.CanonInts = b("cints", 4)
	o.CanonFloats = b("cfloats", 4)
	o.Reorder = b("reorder", 4)
	return o
}

var strPool = [][]byte{
	[]byte("a"), []byte("a"), []byte("b"), []byte(""), []byte("k1"), []byte("k2"), []byte("k3"), []byte("m0"), []byte("m3"), []byte("m64"), []byte("m70"),
	[]byte("/"), []byte("~"), []byte("a/b~"), []byte("\xc3\xa9"), []byte("<&>"), []byte("\xe2\x80\xa8"), []byte("a\x00"), []byte("NaN"), []byte("\"\\"),
	[]byte("\xff"), []byte("a\xffb"), []byte("\xe2\x80"), []byte("\xed\xa0\x80"),
}

var rawStrPool = [][]byte{
	[]byte(`"a"`), []byte(`"\u0061"`), []byte(`"\u0041"`), []byte(`"b"`), []byte(`""`), []byte(`"k1"`), []byte(`"k\u0031"`), []byte(`"m3"`),
	[]byte(`"\/"`), []byte(`"/"`), []byte(`"\u00e9"`), []byte(`"\u00E9"`), []byte("\"\xc3\xa9\""), []byte(`"\ud83d\ude00"`),
	[]byte(`"\u003c"`), []byte(`"<"`), []byte(`"\u2028"`), []byte("\"\xe2\x80\xa8\""), []byte(`"NaN"`), []byte(`"\u0000"`), []byte(`"\""`), []byte(`"\n\t"`),
	[]byte(`"\ud800"`), []byte(`"\udc00\ud800"`), []byte("\"\xff\""), []byte("\"a\xffb\""), []byte("\"\xfe\""),
}

var rawOtherPool = [][]byte{
	[]byte("0"), []byte("-0"), []byte("1.0"), []byte("-0.0"), []byte("1e400"), []byte("123456789012345678901"), []byte("1E+2"), []byte("0.000001"), []byte("9007199254740993"),
	[]byte("null"), []byte("true"), []byte("false"), []byte("{"), []byte("}"), []byte("["), []byte("]"),
}

var valPool = [][]byte{
	[]byte(`null`), []byte(` true `), []byte(`"a"`), []byte(" \"a\"\n"), []byte(`"\u0061"`), []byte(`"b"`), []byte(`{}`), []byte(`[]`), []byte(" [ ] "), []byte("{ }"),
	[]byte(`{"a":1}`), []byte(`{"a":1,"a":2}`), []byte(`{"a":1,"\u0061":2}`), []byte(`{"b":1,"a":2}`), []byte(`{"b":{"a":1,"a":2}}`), []byte(`[1, 2 ,3]`),
	[]byte(`[1,`), []byte(`{"a"`), []byte(`{"a":`), []byte(`1 2`), []byte(`[] []`), []byte(``), []byte(` `), []byte(`nul`), []byte(`nulll`), []byte("\"\xff\""),
	[]byte("{\"\xff\":1,\"\xfe\":2}"), []byte("[\"a\xffb\"]"), []byte(`"\ud800"`), []byte(`[{"a":{"b":[]}}]`), []byte(`-0`), []byte(`1.0`), []byte(`1e400`), []byte(`00`), []byte(`-`),
	[]byte(`"a" x`), []byte(`{"a":1}}`), []byte(`tru`), []byte(`"abc`), []byte(`{"z":1,"a":{"y":2,"b":3}}`), []byte(`{"\ud83d\ude00":1,"\ufb00":2,"é":3}`), []byte(`{"a":1,}`), []byte(`[1,]`), []byte(`{1:2}`),
	[]byte(`{"a" 1}`), []byte(`["<\u003c>", "\u2028", 1E2, -0, 12345678901234567890]`), []byte("\t{\"k1\" : [ true , false ] ,\r\n \"k2\":\"v\" }"),
}

var numPool = []uint64{0, 1, 7, math.MaxUint64, math.MaxUint64 - 6, 1 << 63, 1<<63 - 1, 1 << 53, 1<<53 + 1}

var f64Pool = []float64{0, math.Copysign(0, -1), 1, -1.5, 1e21, 1e-7, 5e-324, math.MaxFloat64, math.NaN(), math.Inf(1), math.Inf(-1), 0.1, 1e20, 123456789}

var f32Pool = []float32{0, float32(math.Copysign(0, -1)), 1, 0.1, 3.4028235e38, 1e-45, float32(math.NaN()), float32(math.Inf(1)), float32(math.Inf(-1)), 16777216}

// Nest returns n nested empty containers: arrays, or objects {"a":{"a":...{}}}.
func Nest(n int, obj bool) []byte {
	var sb strings.Builder
	for i := 0; i < n; i++ {
		if obj && i < n-1 {
			sb.WriteString(`{"a":`)
		} else if obj {
			sb.WriteString(`{`)
		} else {
			sb.WriteString("[")
		}
	}
	for i := 0; i < n; i++ {
		if obj {
			sb.WriteString("}")
		} else {
			sb.WriteString("]")
		}
	}
	return []byte(sb.String())
}

// drawOp draws one op given the model state. deepOK allows ops that reach the
// depth limit (excluded under indentation, where the output would be ~50 MB).
func drawOp(t *rapid.T, m *Model, deepOK bool) Op {
	pick := func(pool [][]byte, name string) []byte { return pool[rapid.IntRange(0, len(pool)-1).Draw(t, name)] }
	rem := MaxDepth - m.Depth()
	switch w := rapid.IntRange(0, 39).Draw(t, "opclass"); {
	case w < 2:
		return Op{K: []string{KNull, KTrue, KFalse}[rapid.IntRange(0, 2).Draw(t, "lit")]}
	case w < 5:
		return Op{K: KBO}
	case w < 8:
		return Op{K: KEO}
	case w < 10:
		return Op{K: KBA}
	case w < 12:
		return Op{K: KEA}
	case w < 17:
		return Op{K: KStr, S: pick(strPool, "str")}
	case w < 21:
		return Op{K: KRaw, S: pick(rawStrPool, "rawstr")}
	case w < 23:
		return Op{K: KRaw, S: pick(rawOtherPool, "rawother")}
	case w < 25:
		switch rapid.IntRange(0, 3).Draw(t, "numkind") {
		case 0:
			return Op{K: KInt, N: numPool[rapid.IntRange(0, len(numPool)-1).Draw(t, "int")]}
		case 1:
			return Op{K: KUint, N: numPool[rapid.IntRange(0, len(numPool)-1).Draw(t, "uint")]}
		case 2:
			return Op{K: KF64, N: math.Float64bits(f64Pool[rapid.IntRange(0, len(f64Pool)-1).Draw(t, "f64")])}
		default:
			return Op{K: KF32, N: uint64(math.Float32bits(f32Pool[rapid.IntRange(0, len(f32Pool)-1).Draw(t, "f32")]))}
		}
	case w < 26:
		return Op{K: KZero}
	case w < 33:
		switch v := rapid.IntRange(0, 9).Draw(t, "valclass"); {
		case v < 5:
			return Op{K: KVal, S: pick(valPool, "val")}
		case v < 7:
			cfg := gen.DocCfg{WS: true, MaxDepth: 3, MaxWidth: 4, Dups: rapid.Bool().Draw(t, "dups"), BadUTF8: rapid.Bool().Draw(t, "badutf8")}
			return Op{K: KVal, S: gen.Doc(t, cfg)}
		case v < 8:
			cfg := gen.DocCfg{WS: true, MaxDepth: 3, MaxWidth: 4, Dups: rapid.Bool().Draw(t, "dups"), BadUTF8: rapid.Bool().Draw(t, "badutf8")}
			return Op{K: KVal, S: gen.Mutate(t, gen.Doc(t, cfg))}
		case v < 9 && (rem <= 64 || deepOK):
			// nesting around what is still allowed
			n := max(1, rem+rapid.IntRange(-1, 1).Draw(t, "nestdelta"))
			if n > 64 {
				return Op{K: KNest, N: uint64(n), S: []byte(rapid.SampledFrom([]string{"[", "{"}).Draw(t, "nestkind"))}
			}
			return Op{K: KVal, S: Nest(n, rapid.Bool().Draw(t, "nestobj"))}
		default:
			return Op{K: KVal, S: Nest(rapid.IntRange(1, 6).Draw(t, "nest"), rapid.Bool().Draw(t, "nestobj"))}
		}
	case w < 35:
		k := KPushA
		if rapid.Bool().Draw(t, "pushobj") {
			k = KPushO
		}
		if deepOK && rapid.IntRange(0, 3).Draw(t, "tolimit") == 0 {
			n := rem + rapid.IntRange(-2, 3).Draw(t, "pushdelta")
			if n < 1 {
				n = 1
			}
			return Op{K: k, N: uint64(n)}
		}
		return Op{K: k, N: uint64(rapid.IntRange(1, 6).Draw(t, "push"))}
	case w < 36:
		if rapid.IntRange(0, 2).Draw(t, "twins") == 0 {
			return Op{K: KTwins, N: uint64(rapid.SampledFrom([]int{2, 20, 21, 22, 23, 30, 64, 66}).Draw(t, "twinsn"))}
		}
		return Op{K: KFill, N: uint64(rapid.SampledFrom([]int{1, 2, 5, 63, 64, 65, 66, 80, 140}).Draw(t, "fill"))}
	default:
		if rapid.IntRange(0, 2).Draw(t, "unwindall") == 0 {
			return Op{K: KUnwind, N: maxMacro}
		}
		return Op{K: KUnwind, N: uint64(rapid.IntRange(1, 4).Draw(t, "unwind"))}
	}
}

func isMacro(op Op) bool {
	switch op.K {
	case KPushA, KPushO, KUnwind, KFill, KTwins:
		return true
	}
	return false
}

// Simulate applies op (expanding macros) to the model only.
func Simulate(m *Model, op Op) {
	Expand(m, op, func(p Op) error {
		in := m.Classify(p)
		if ok, _ := m.Legal(in); ok {
			m.Apply(in)
		}
		return nil
	})
}

// GenSteps appends n steered ops to ops, advancing the model.
func GenSteps(t *rapid.T, m *Model, ops []Op, n int, deepOK bool) []Op {
	for i := 0; i < n; i++ {
		steer := rapid.IntRange(0, 9).Draw(t, "steer") < 7
		var op Op
		for try := 0; try < 5; try++ {
			op = drawOp(t, m, deepOK)
			if !steer || isMacro(op) {
				break
			}
			if ok, _ := m.Legal(m.Classify(op)); ok {
				break
			}
		}
		ops = append(ops, op)
		Simulate(m, op)
	}
	return ops
}

// DeepOK reports whether sequences reaching the depth limit are affordable
// under o (no per-level indentation).
func DeepOK(o Opts) bool { return !o.Multi() || (o.indent() == "" && len(o.prefix()) <= 1) }

// GenCase draws a random call sequence of up to 60 ops.
func GenCase(t *rapid.T) Case {
	o := GenOpts(t)
	m := NewModel(o)
	n := rapid.IntRange(1, 60).Draw(t, "len")
	ops := GenSteps(t, m, nil, n, false) // the depth limit is the business of GenDeep
	return Case{Opts: o, Ops: ops, Swap: rapid.Bool().Draw(t, "swap")}
}

// GenDeep draws a sequence that works around the depth limit.
func GenDeep(t *rapid.T) Case {
	o := GenOpts(t)
	if o.Multi() {
		// the library spends O(depth) per token on indentation even when the
		// indent is empty, so only a fraction of the deep cases is multi-line
		o.Multiline, o.Indent, o.Prefix = 0, nil, nil
		if rapid.IntRange(0, 3).Draw(t, "noindent") == 0 {
			o.Indent = sp("")
		}
	}
	m := NewModel(o)
	var ops []Op
	// leave room for K more levels, so that raw values nested about K deep meet the limit
	k := rapid.SampledFrom([]int{0, 0, 0, 0, 1, 2, 3, 40, 700}).Draw(t, "room")
	target := MaxDepth - k + rapid.IntRange(-2, 3).Draw(t, "target")
	for left := target; left > 0; {
		n := left
		if rapid.IntRange(0, 2).Draw(t, "split") != 0 {
			n = rapid.IntRange(1, left).Draw(t, "part")
		}
		k := KPushA
		if rapid.Bool().Draw(t, "obj") {
			k = KPushO
		}
		ops = append(ops, Op{K: k, N: uint64(n)})
		left -= n
	}
	for _, op := range ops {
		Simulate(m, op)
	}
	ops = GenSteps(t, m, ops, rapid.IntRange(1, 8).Draw(t, "near"), true)
	un := Op{K: KUnwind, N: maxMacro}
	ops = append(ops, un)
	Simulate(m, un)
	ops = GenSteps(t, m, ops, rapid.IntRange(0, 4).Draw(t, "after"), true)
	if rapid.IntRange(0, 3).Draw(t, "deepvalue") == 0 {
		// one raw value nested around what is still allowed
		n := max(1, MaxDepth-m.Depth()+rapid.IntRange(-1, 1).Draw(t, "nestdelta"))
		op := Op{K: KNest, N: uint64(n), S: []byte(rapid.SampledFrom([]string{"[", "{"}).Draw(t, "nestkind"))}
		ops = append(ops, op)
		Simulate(m, op)
		ops = GenSteps(t, m, ops, rapid.IntRange(0, 2).Draw(t, "last"), true)
	}
	return Case{Opts: o, Ops: ops, Swap: rapid.Bool().Draw(t, "swap")}
}

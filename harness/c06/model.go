package c06

import (
	"math"
	"sort"
	"strconv"
	"strings"

	"verif/harness/ref"
)

// MaxDepth is the documented nesting limit.
const MaxDepth = 10000

// Opts is an option set as plain data. Tri-state ints: 0 unspecified, 1 true, 2 false.
type Opts struct {
	Multiline   int     `json:"multiline,omitempty"`
	SpaceColon  int     `json:"space_after_colon,omitempty"`
	SpaceComma  int     `json:"space_after_comma,omitempty"`
	Indent      *string `json:"indent,omitempty"`
	Prefix      *string `json:"prefix,omitempty"`
	HTML        bool    `json:"escape_html,omitempty"`
	JS          bool    `json:"escape_js,omitempty"`
	AllowDup    bool    `json:"allow_duplicate_names,omitempty"`
	AllowUTF8   bool    `json:"allow_invalid_utf8,omitempty"`
	Preserve    bool    `json:"preserve_raw_strings,omitempty"`
	CanonInts   bool    `json:"canonicalize_raw_ints,omitempty"`
	CanonFloats bool    `json:"canonicalize_raw_floats,omitempty"`
	Reorder     bool    `json:"reorder_raw_objects,omitempty"`
}

// Multi reports whether the output is multi-line (Multiline(true), or implied
// by WithIndent / WithIndentPrefix as documented).
func (o Opts) Multi() bool { return o.Multiline == 1 || o.Indent != nil || o.Prefix != nil }

func (o Opts) spaceColon() bool {
	if o.SpaceColon != 0 {
		return o.SpaceColon == 1
	}
	return o.Multi() // "If SpaceAfterColon is not specified, then the default is true"
}

func (o Opts) spaceComma() bool { return o.SpaceComma == 1 }

func (o Opts) indent() string {
	if o.Indent != nil {
		return *o.Indent
	}
	return "\t"
}

func (o Opts) prefix() string {
	if o.Prefix != nil {
		return *o.Prefix
	}
	return ""
}

// fmtOpt projects o on the reference formatter's options, for a raw value
// written at nesting depth d (the indentation of depth d is folded into the prefix).
func (o Opts) fmtOpt(d int) ref.FmtOpt {
	f := ref.FmtOpt{AllowInvalidUTF8: o.AllowUTF8, AllowDup: o.AllowDup, EscapeHTML: o.HTML, EscapeJS: o.JS,
		PreserveRaw: o.Preserve, CanonInts: o.CanonInts, CanonFloats: o.CanonFloats, Reorder: o.Reorder, Multiline: o.Multi()}
	sc, sm := o.spaceColon(), o.spaceComma()
	f.SpaceAfterColon, f.SpaceAfterComma = &sc, &sm
	if f.Multiline {
		ind := o.indent()
		f.Indent = &ind
		f.Prefix = o.prefix() + strings.Repeat(ind, d)
	}
	return f
}

// Info is what the model knows about one primitive call under an option set.
type Info struct {
	Kind byte   // n t f " 0 { } [ ] ; 0 for a call that is illegal in every position
	Name string // decoded text of a string (ill-formed parts replaced by U+FFFD)
	Bad  string // why the call is illegal in every position ("" if it is not)
	Text string // expected spelling in the output
	Tie  bool   // expected spelling is one of several acceptable ones (reordered equal names)
	Val  bool   // the call is WriteValue (a complete value), not WriteToken
}

type mlevel struct {
	obj   bool
	n     int64
	names map[string]struct{}
	last  string
}

// Model is the independent push-down model of the documented Encoder
// behaviour: legality of the next call, coder state, expected output.
type Model struct {
	O   Opts
	Lv  []mlevel // Lv[0] is the top level
	Exp []byte   // expected output of all accepted calls so far
	Amb bool     // Exp is ambiguous from some point on (see Info.Tie)

	memo map[string]Info
}

// NewModel returns the model of a fresh encoder.
func NewModel(o Opts) *Model { return &Model{O: o, Lv: []mlevel{{}}} }

// Depth is the number of open containers.
func (m *Model) Depth() int { return len(m.Lv) - 1 }

// NeedName reports whether the next token must be a member name (or '}').
func (m *Model) NeedName() bool { t := &m.Lv[len(m.Lv)-1]; return t.obj && t.n%2 == 0 }

// NeedValue reports whether the next token must be a member value.
func (m *Model) NeedValue() bool { t := &m.Lv[len(m.Lv)-1]; return t.obj && t.n%2 == 1 }

// TopIsObject reports whether the innermost open container is an object.
func (m *Model) TopIsObject() bool { return m.Lv[len(m.Lv)-1].obj }

func f64Text(f float64) (kind byte, text string) {
	switch {
	case math.IsNaN(f):
		return '"', "NaN"
	case math.IsInf(f, 1):
		return '"', "Infinity"
	case math.IsInf(f, -1):
		return '"', "-Infinity"
	case math.Float64bits(f) == 0:
		return '0', "0"
	}
	return '0', ref.ES6(f, 64)
}

func (m *Model) strInfo(decoded string, wellFormed bool, text string) Info {
	if !wellFormed && !m.O.AllowUTF8 {
		return Info{Bad: "utf8"}
	}
	return Info{Kind: '"', Name: decoded, Text: text}
}

func (m *Model) numText(lit string) string {
	if lit == "-0" && (m.O.CanonInts || m.O.CanonFloats) {
		return "0" // both option docs: "As a special case, the number -0 is canonicalized as 0"
	}
	if ref.IsIntLit(lit) {
		if m.O.CanonInts {
			return ref.CanonNumber(lit)
		}
		return lit
	}
	if m.O.CanonFloats {
		return ref.CanonNumber(lit)
	}
	return lit
}

// rawString gives the expected spelling of a raw string literal.
func (m *Model) rawString(lit []byte) Info {
	s, wf, ok := ref.Unquote(lit)
	if !ok {
		return Info{Bad: "harness-bad-raw-string"}
	}
	var text string
	switch {
	case !m.O.Preserve:
		text, _ = ref.Quote(s, m.O.HTML, m.O.JS)
	case !m.O.HTML && !m.O.JS:
		text = string(lit)
	default:
		text = ref.EscapeRawOnly(lit, m.O.HTML, m.O.JS)
	}
	return m.strInfo(s, wf, text)
}

// Classify computes what the model knows about primitive op at the current depth.
func (m *Model) Classify(op Op) Info {
	switch op.K {
	case KNull:
		return Info{Kind: 'n', Text: "null"}
	case KTrue:
		return Info{Kind: 't', Text: "true"}
	case KFalse:
		return Info{Kind: 'f', Text: "false"}
	case KBO:
		return Info{Kind: '{', Text: "{"}
	case KEO:
		return Info{Kind: '}', Text: "}"}
	case KBA:
		return Info{Kind: '[', Text: "["}
	case KEA:
		return Info{Kind: ']', Text: "]"}
	case KZero:
		return Info{Bad: "zero-token"}
	case KStr:
		s := string(op.S)
		text, wf := ref.Quote(s, m.O.HTML, m.O.JS)
		return m.strInfo(ref.Sanitize(s), wf, text)
	case KInt:
		return Info{Kind: '0', Text: strconv.FormatInt(int64(op.N), 10)}
	case KUint:
		return Info{Kind: '0', Text: strconv.FormatUint(op.N, 10)}
	case KF64:
		k, t := f64Text(math.Float64frombits(op.N))
		if k == '"' {
			return Info{Kind: '"', Name: t, Text: `"` + t + `"`}
		}
		return Info{Kind: '0', Text: t}
	case KF32:
		f := math.Float32frombits(uint32(op.N))
		if f != 0 && !math.IsNaN(float64(f)) && !math.IsInf(float64(f), 0) {
			return Info{Kind: '0', Text: ref.ES6(float64(f), 32)}
		}
		k, t := f64Text(float64(f))
		if k == '"' {
			return Info{Kind: '"', Name: t, Text: `"` + t + `"`}
		}
		return Info{Kind: '0', Text: t}
	case KRaw:
		lit := op.S
		if len(lit) == 0 {
			return Info{Bad: "harness-empty-raw"}
		}
		switch c := lit[0]; {
		case c == '"':
			return m.rawString(lit)
		case c == '-' || (c >= '0' && c <= '9'):
			return Info{Kind: '0', Text: m.numText(string(lit))}
		case string(lit) == "null":
			return Info{Kind: 'n', Text: "null"}
		case string(lit) == "true":
			return Info{Kind: 't', Text: "true"}
		case string(lit) == "false":
			return Info{Kind: 'f', Text: "false"}
		case len(lit) == 1 && strings.IndexByte("{}[]", c) >= 0:
			return Info{Kind: c, Text: string(lit)}
		}
		return Info{Bad: "harness-bad-raw"}
	case KNest:
		// WriteValue of N nested empty containers: valid JSON by construction,
		// so only the depth rule decides (ref.Parse is too slow for 10000 levels).
		n, d := int(min(op.N, maxMacro)), m.Depth()
		if n < 1 {
			return Info{Bad: "harness-bad-nest"}
		}
		if n > MaxDepth-d {
			return Info{Bad: "value-depth"}
		}
		obj := string(op.S) == "{"
		name := &ref.Node{Kind: '"', Start: 0, End: 3, Str: "a", StrValid: true}
		node := &ref.Node{Kind: '['}
		if obj {
			node.Kind = '{'
		}
		for i := 1; i < n; i++ {
			if obj {
				node = &ref.Node{Kind: '{', Members: []ref.Member{{Name: name, Value: node}}}
			} else {
				node = &ref.Node{Kind: '[', Elems: []*ref.Node{node}}
			}
		}
		vf := valueFormatter{m: m, in: []byte(`"a"`)}
		vf.value(node, d)
		return Info{Kind: byte(node.Kind), Text: string(vf.out), Val: true}
	case KVal:
		d := m.Depth()
		var key string
		if len(op.S) > 2048 { // memoise big values (pure function of text, depth, options)
			key = strconv.Itoa(d) + ":" + string(op.S)
			if in, ok := m.memo[key]; ok {
				return in
			}
		}
		po := ref.Opt{AllowInvalidUTF8: m.O.AllowUTF8, AllowDup: m.O.AllowDup, MaxDepth: MaxDepth - d}
		if po.MaxDepth == 0 {
			po.MaxDepth = 1 // 0 would mean "default" to ref.Parse; containers are refused below
		}
		node, err := ref.Parse(op.S, po)
		if err != nil {
			return Info{Bad: "value-" + err.Kind.String()}
		}
		if d == MaxDepth && (node.Kind == '{' || node.Kind == '[') {
			return Info{Bad: "value-depth"}
		}
		vf := valueFormatter{m: m, in: op.S}
		vf.value(node, d)
		in := Info{Kind: byte(node.Kind), Name: node.Str, Text: string(vf.out), Tie: vf.tie, Val: true}
		if key != "" {
			if m.memo == nil {
				m.memo = map[string]Info{}
			}
			m.memo[key] = in
		}
		return in
	}
	return Info{Bad: "harness-unknown-op"}
}

// Legal decides whether the call is legal now; why names the violated rule.
func (m *Model) Legal(in Info) (ok bool, why string) {
	if in.Bad != "" {
		return false, in.Bad
	}
	top := &m.Lv[len(m.Lv)-1]
	needName := top.obj && top.n%2 == 0
	switch in.Kind {
	case '}':
		switch {
		case !top.obj:
			return false, "mismatched-delim"
		case !needName:
			return false, "missing-value"
		}
		return true, ""
	case ']':
		if top.obj || len(m.Lv) == 1 {
			return false, "mismatched-delim"
		}
		return true, ""
	case '"':
		if needName && top.names != nil {
			if _, dup := top.names[in.Name]; dup {
				return false, "duplicate-name"
			}
		}
		return true, ""
	}
	if needName {
		return false, "non-string-name"
	}
	if (in.Kind == '{' || in.Kind == '[') && !in.Val && m.Depth() >= MaxDepth {
		return false, "depth"
	}
	return true, ""
}

func (m *Model) newline(d int) {
	m.Exp = append(m.Exp, '\n')
	m.Exp = append(m.Exp, m.O.prefix()...)
	if ind := m.O.indent(); ind != "" {
		for i := 0; i < d; i++ {
			m.Exp = append(m.Exp, ind...)
		}
	}
}

// Apply commits a legal call: expected output and coder state.
func (m *Model) Apply(in Info) {
	isToken := !in.Val
	top := &m.Lv[len(m.Lv)-1]
	d := m.Depth()
	closing := isToken && (in.Kind == '}' || in.Kind == ']')
	// delimiter and whitespace before the token, per the option documentation
	if d > 0 {
		if top.obj && top.n%2 == 1 {
			m.Exp = append(m.Exp, ':')
			if m.O.spaceColon() {
				m.Exp = append(m.Exp, ' ')
			}
		} else {
			if top.n > 0 && !closing {
				m.Exp = append(m.Exp, ',')
				if m.O.spaceComma() {
					m.Exp = append(m.Exp, ' ')
				}
			}
			if m.O.Multi() {
				switch {
				case closing && top.n == 0: // empty containers stay {} / []
				case closing:
					m.newline(d - 1)
				default:
					m.newline(d)
				}
			}
		}
	}
	m.Exp = append(m.Exp, in.Text...)
	if in.Tie {
		m.Amb = true
	}
	switch {
	case closing:
		m.Lv = m.Lv[:len(m.Lv)-1]
	case isToken && (in.Kind == '{' || in.Kind == '['):
		top.n++
		nl := mlevel{obj: in.Kind == '{'}
		if nl.obj && !m.O.AllowDup {
			nl.names = map[string]struct{}{}
		}
		m.Lv = append(m.Lv, nl)
	default:
		if top.obj && top.n%2 == 0 {
			top.last = in.Name
			if top.names != nil {
				top.names[in.Name] = struct{}{}
			}
		}
		top.n++
	}
	if m.Depth() == 0 {
		m.Exp = append(m.Exp, '\n') // each top-level value is newline-terminated
	}
}

// Pointer is the RFC 6901 pointer of the most recently written value.
func (m *Model) Pointer() string {
	var sb strings.Builder
	for i := 1; i < len(m.Lv); i++ {
		l := &m.Lv[i]
		if l.n == 0 { // only possible for the innermost level: the container itself
			break
		}
		sb.WriteByte('/')
		if l.obj {
			sb.WriteString(ref.EscapePtr(l.last))
		} else {
			sb.WriteString(strconv.FormatInt(l.n-1, 10))
		}
	}
	return sb.String()
}

// Level returns (kind, length) of stack level i as documented for StackIndex.
func (m *Model) Level(i int) (byte, int64) {
	l := &m.Lv[i]
	switch {
	case i == 0:
		return 0, l.n
	case l.obj:
		return '{', l.n
	}
	return '[', l.n
}

// valueFormatter lays out a parsed raw value as the option documentation
// prescribes (whitespace options, string and number spelling of raw text,
// RFC 8785 member order under ReorderRawObjects).
type valueFormatter struct {
	m   *Model
	in  []byte
	out []byte
	tie bool
}

func (f *valueFormatter) newline(d int) {
	o := f.m.O
	f.out = append(f.out, '\n')
	f.out = append(f.out, o.prefix()...)
	if ind := o.indent(); ind != "" {
		for i := 0; i < d; i++ {
			f.out = append(f.out, ind...)
		}
	}
}

func (f *valueFormatter) sep(i int) {
	if i > 0 {
		f.out = append(f.out, ',')
		if f.m.O.spaceComma() {
			f.out = append(f.out, ' ')
		}
	}
}

func (f *valueFormatter) value(n *ref.Node, d int) {
	o := f.m.O
	switch n.Kind {
	case 'n', 't', 'f':
		f.out = append(f.out, f.in[n.Start:n.End]...)
	case '0':
		f.out = append(f.out, f.m.numText(string(f.in[n.Start:n.End]))...)
	case '"':
		f.out = append(f.out, f.m.rawString(f.in[n.Start:n.End]).Text...)
	case '[':
		f.out = append(f.out, '[')
		for i, e := range n.Elems {
			f.sep(i)
			if o.Multi() {
				f.newline(d + 1)
			}
			f.value(e, d+1)
		}
		if o.Multi() && len(n.Elems) > 0 {
			f.newline(d)
		}
		f.out = append(f.out, ']')
	case '{':
		ms := n.Members
		if o.Reorder && len(ms) > 1 {
			ms = append([]ref.Member(nil), ms...)
			sort.SliceStable(ms, func(i, j int) bool { return ref.UTF16Less(ms[i].Name.Str, ms[j].Name.Str) })
			for i := 1; i < len(ms); i++ {
				if ms[i].Name.Str == ms[i-1].Name.Str {
					f.tie = true // RFC 8785 does not order equal names
				}
			}
		}
		f.out = append(f.out, '{')
		for i, mb := range ms {
			f.sep(i)
			if o.Multi() {
				f.newline(d + 1)
			}
			f.out = append(f.out, f.m.rawString(f.in[mb.Name.Start:mb.Name.End]).Text...)
			f.out = append(f.out, ':')
			if o.spaceColon() {
				f.out = append(f.out, ' ')
			}
			f.value(mb.Value, d+1)
		}
		if o.Multi() && len(ms) > 0 {
			f.newline(d)
		}
		f.out = append(f.out, '}')
	}
}

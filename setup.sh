#!/bin/bash
# setup_cmd: build the driver from files on disk, offline.
set -e
cd "$(dirname "$0")"
export GOFLAGS=-mod=mod GOPROXY=off GOSUMDB=off GOTOOLCHAIN=local
mkdir -p bin .build replays evidence
cd harness
go1.26.8 build -o ../bin/verifdrv ./cmd/verifdrv
# warm the build cache for the shared packages (also proves rapid v1.3.0 resolves offline)
go1.26.8 build ./ref ./gen ./cov ./rt
echo "setup ok"

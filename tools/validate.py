#!/opt/veriftools/pyvenv/bin/python
import json, jsonschema, glob, sys
ok = True
try:
    jsonschema.validate(json.load(open('MANIFEST.json')), json.load(open('/root/.vp/MANIFEST.schema.json')))
    print("MANIFEST ok")
except Exception as e:
    ok = False; print("MANIFEST INVALID:", str(e)[:400])
sch = json.load(open('/root/.vp/EVIDENCE.schema.json'))
for f in sorted(glob.glob('evidence/*.json')):
    try:
        jsonschema.validate(json.load(open(f)), sch)
    except Exception as e:
        ok = False; print(f, "INVALID:", str(e)[:400])
print("evidence files:", len(glob.glob('evidence/*.json')))
sys.exit(0 if ok else 1)

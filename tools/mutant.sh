#!/bin/bash
# tools/mutant.sh <patch.diff> <ID> [tier] [--suite]
# Applies a patch to a scratch copy of /repo, optionally runs the repo's own
# test suite on it, runs ./check <ID> <tier> against the copy (VERIF_REPO) and
# removes the copy. Never touches /repo.
set -u
patch="$(realpath "$1")"; id="$2"; tier="${3:-quick}"; suite="${4:-}"
cd "$(dirname "$0")/.."
scratch="$(mktemp -d /tmp/verif-mut.XXXXXX)"
trap 'rm -rf "$scratch"' EXIT
rsync -a --exclude .git /repo/ "$scratch/"
( cd "$scratch" && patch -p1 -s < "$patch" ) || { echo "mutant: patch does not apply"; exit 3; }
export GOFLAGS=-mod=mod GOPROXY=off GOSUMDB=off GOTOOLCHAIN=local
( cd "$scratch" && go1.26.8 build ./... ) || { echo "mutant: does not compile"; exit 3; }
if [ "$suite" = "--suite" ]; then
  ( cd "$scratch" && go1.26.8 test -vet=off -count=1 ./... 2>&1 | grep -E "^(ok|FAIL|--- FAIL|panic)" | head -20 ) 
fi
start=$(date +%s)
VERIF_REPO="$scratch" ./check "$id" "$tier"
rc=$?
echo "mutant: check exit=$rc after $(( $(date +%s) - start ))s"
exit $rc

#!/bin/bash
# tools/import_seed.sh <ID> <k> "<verification summary line>" : copies a verified seeded change into /verif/seeded/<ID>-<k>/
set -e
id="$1"; k="$2"; summary="${3:-}"; src="${SEED_SRC:-/tmp/seed-$id-out}"; dst="/verif/seeded/$id-$k"
mkdir -p "$dst"
cp "$src/patch$k.diff" "$dst/patch.diff"
cp "$src/demo${k}_test.go" "$dst/demo_test.go"
python3 - "$src/meta$k.json" "$dst/meta.json" "$summary" <<'PY'
import json,sys
m=json.load(open(sys.argv[1]))
m["verified_by_main"]=sys.argv[3]
m["how_verified"]="tools/verify_seed.sh: fresh scratch worktree of /repo; demo passes on the clean checkout; patch applies and builds; `go1.26.8 test -vet=off -count=1 ./...` passes with the patch; demo fails with the patch"
json.dump(m,open(sys.argv[2],"w"),indent=1)
PY
echo "imported $dst"

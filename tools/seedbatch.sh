#!/bin/bash
# tools/seedbatch.sh <ID> <check-id>... : verify both seeded changes of /tmp/seed-<ID>-out, import them into
# /verif/seeded/<ID>-<k>/ and run the listed checks (quick tier, scratch copy) against each; results are appended to seeded/LEDGER.txt
id="$1"; shift
cd /verif
pre="${SEED_PREFIX:-seed}"; off="${SEED_OFFSET:-0}"   # round 2: SEED_PREFIX=seedB SEED_OFFSET=2
src="/tmp/$pre-$id-out"
git -C /repo worktree remove --force /tmp/$pre-$id 2>/dev/null
for j in 1 2; do
  k=$((j+off))
  [ -f $src/patch$j.diff ] || continue
  if [ "$off" != 0 ]; then cp $src/patch$j.diff $src/patch$k.diff; cp $src/demo${j}_test.go $src/demo${k}_test.go; cp $src/meta$j.json $src/meta$k.json; fi
  line=$(./tools/verify_seed.sh $id $k $src | head -1)
  echo "$line" >> seeded/LEDGER.txt
  case "$line" in *"clean_demo=ok suite=ok patched_demo=fails"*) ;; *) echo "  -> NOT KEPT (verification failed)" >> seeded/LEDGER.txt; continue;; esac
  SEED_SRC=$src ./tools/import_seed.sh $id $k "clean_demo=ok suite=ok patched_demo=fails" >/dev/null
  for chk in "$@"; do
    out=$(VERIF_SHARDS=${VERIF_SHARDS:-4} ./tools/mutant.sh seeded/$id-$k/patch.diff $chk quick 2>&1)
    rc=$(echo "$out" | sed -n 's/^mutant: check exit=\([0-9]*\).*/\1/p')
    first=$(echo "$out" | grep -A1 "^VIOLATION" | head -2 | tr '\n' ' ' | cut -c1-260)
    echo "RUN seed=$id-$k check=$chk exit=$rc $first" >> seeded/LEDGER.txt
  done
done

#!/bin/bash
# tools/verify_seed.sh <ID> <k> : verifies seeded change k of /tmp/seed-<ID>-out in a fresh scratch worktree:
#   demo passes on clean checkout, patch applies + builds, repo suite passes with patch, demo fails with patch.
# Prints one summary line: SEED <ID> <k> clean_demo=<ok|FAIL> suite=<ok|FAIL> patched_demo=<fails|PASSES>
set -u
id="$1"; k="$2"; src="${3:-/tmp/seed-$id-out}"
export GOFLAGS=-mod=mod GOPROXY=off GOSUMDB=off GOTOOLCHAIN=local
wt="/tmp/vs-$id-$k"
git -C /repo worktree remove --force "$wt" 2>/dev/null
git -C /repo worktree add -q --detach "$wt" HEAD || exit 2
trap 'git -C /repo worktree remove --force "$wt" 2>/dev/null' EXIT
demo="$src/demo${k}_test.go"
dir="$(head -1 "$demo" | sed -n 's#^// dir: *##p')"; dir="${dir:-.}"
cp "$demo" "$wt/$dir/zz_seed_demo_test.go"
names=$(grep -oE '^func (Test[A-Za-z0-9_]+)' "$demo" | awk '{print $2}' | paste -sd'|')
run_demo() { (cd "$wt" && go1.26.8 test -vet=off -count=1 -run "^($names)\$" "./$dir" >"$wt/.demo.log" 2>&1); }
if run_demo; then clean=ok; else clean=FAIL; fi
(cd "$wt" && git apply "$src/patch$k.diff") || { echo "SEED $id $k patch-does-not-apply"; exit 1; }
rm "$wt/$dir/zz_seed_demo_test.go"
if (cd "$wt" && go1.26.8 test -vet=off -count=1 ./... >"$wt/.suite.log" 2>&1); then suite=ok; else suite=FAIL; fi
cp "$demo" "$wt/$dir/zz_seed_demo_test.go"
if run_demo; then pd=PASSES; else pd=fails; fi
echo "SEED $id $k clean_demo=$clean suite=$suite patched_demo=$pd"
[ "$suite" = FAIL ] && grep -E "^(FAIL|---)" "$wt/.suite.log" | head -5
exit 0

#!/usr/bin/env python3
"""Regenerates MANIFEST.json from the table below (run from /verif)."""
import json, os

# id -> (technique, level text, level note, design ref); a property missing here is listed under not_applicable
CLAIMED = json.load(open(os.path.join(os.path.dirname(__file__), "claims.json")))
ALL = [json.loads(l)["id"] for l in open("properties.jsonl")]

checks = []
for pid in ALL:
    c = CLAIMED.get(pid)
    if not c or not c.get("claimed", True):
        continue
    checks.append({
        "property_id": pid,
        "quick_cmd": f"./check {pid} quick",
        "thorough_cmd": f"./check {pid} thorough",
        "evidence_file": f"evidence/{pid}.json",
        "replay_cmd_template": f"./check {pid} --replay {{path}}",
        "engine": "rapid+enumeration+go-fuzz harness",
        "level_claimed": {"category": "exploration", "text": c["text"], "design_ref": c.get("design_ref", f"DESIGN.md section 5, {pid}")},
        "level_note": c["note"],
        "technique": c["technique"],
    })
na = [{"property_id": pid, "reason": (CLAIMED.get(pid) or {}).get("na_reason", "check not built yet in this session (see DESIGN.md section 9, build order); no verdict is claimed")}
      for pid in ALL if pid not in [c["property_id"] for c in checks]]
m = {
    "version": 1,
    "setup_cmd": "./setup.sh",
    "hooks": {
        "guard": "verif",
        "enable": "harness is built with `go1.26.8 test -c -tags verif` against /repo through a replace directive; no guarded code exists in /repo (every property is observable through the public API)",
        "baseline_off_cmd": "cd /repo && GOFLAGS=-mod=mod GOPROXY=off GOSUMDB=off go test -vet=off -count=1 -timeout 25m ./...",
        "source_commits": [],
        "add_only": True,
    },
    "engines": [{
        "name": "rapid+enumeration+go-fuzz harness",
        "path": "harness/",
        "serves_properties": [c["property_id"] for c in checks],
        "kind_free_text": "property-based testing: pgregory.net/rapid v1.3.0 generators + shrinking, bounded-exhaustive enumerations, Go native fuzzing (thorough tier), all against independent oracles (harness/ref reference model, math/big, std encoding/json)",
    }],
    "checks": checks,
    "not_applicable": na,
    "notes": "Driver: ./check <ID> <quick|thorough> rebuilds harness/<id> against /repo's working tree (go1.26.8, GOFLAGS=-mod=mod GOPROXY=off), runs it in up to 16 shard processes, merges evidence. Seeds: VERIF_SEED (default 1) -> per-shard rapid seed splitmix64(seed, property, sub-check, shard)|1. Exit 0 held / 1 with 'VIOLATION property=<id> replay=<path>' / 2 inconclusive (build failure, oracle self-test failure, shard killed). Known findings: known_findings.txt (never written at run time); replays/ holds shrunk failing cases; regression/<ID>/ committed replay files run first on every invocation.",
}
json.dump(m, open("MANIFEST.json", "w"), indent=1)
print("claimed:", [c["property_id"] for c in checks])

#!/usr/bin/env python3
"""tools/mkmutant.py <ID> <name> <file-in-repo> <old> <new> [count]
Writes /verif/seeded-dev/<ID>/<name>.diff replacing the (count-th, default only) occurrence of old by new."""
import sys, os, subprocess, tempfile, shutil
pid, name, rel, old, new = sys.argv[1:6]
which = int(sys.argv[6]) if len(sys.argv) > 6 else None
src = open(os.path.join('/repo', rel)).read()
n = src.count(old)
if n == 0: sys.exit("old text not found")
if n > 1 and which is None: sys.exit(f"old text occurs {n} times; give an index")
if which is None:
    out = src.replace(old, new)
else:
    parts = src.split(old)
    out = old.join(parts[:which+1]) + new + old.join(parts[which+1:])
d = tempfile.mkdtemp(prefix='/tmp/mkmut.')
try:
    for side, text in (('a', src), ('b', out)):
        p = os.path.join(d, side, rel); os.makedirs(os.path.dirname(p), exist_ok=True); open(p, 'w').write(text)
    r = subprocess.run(['diff', '-u', os.path.join('a', rel), os.path.join('b', rel)], cwd=d, capture_output=True, text=True)
    os.makedirs(f'/verif/seeded-dev/{pid}', exist_ok=True)
    open(f'/verif/seeded-dev/{pid}/{name}.diff', 'w').write(r.stdout)
    print(f'/verif/seeded-dev/{pid}/{name}.diff', len(r.stdout.splitlines()), 'lines')
finally:
    shutil.rmtree(d)

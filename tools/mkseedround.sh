#!/bin/bash
# tools/mkseedround.sh <prefix> <ID>... : prepares /tmp/<prefix>-<ID> (scratch worktree of /repo) and
# /tmp/<prefix>-<ID>-out/{PROPERTY.txt,INSTRUCTIONS.txt} for a further round of seeded changes. The titles of
# the changes already kept for the property are listed as "already used".
pre="$1"; shift
cd /verif
for id in "$@"; do
  wt=/tmp/$pre-$id; out=/tmp/$pre-$id-out
  git -C /repo worktree remove --force $wt 2>/dev/null; rm -rf $wt $out; mkdir -p $out
  git -C /repo worktree add --detach $wt HEAD >/dev/null 2>&1
  python3 - "$id" "$pre" <<'PY'
import json,sys,glob
id,pre=sys.argv[1],sys.argv[2]
prop=None
for l in open('/verif/properties.jsonl'):
    p=json.loads(l)
    if p['id']==id: prop=p
text=f"{id}: {prop['title']}\n\n{prop['statement']}"
out=f"/tmp/{pre}-{id}-out"
open(out+"/PROPERTY.txt","w").write(text+"\n")
t=open('/verif/tools/seed_prompt.txt').read().replace('/tmp/seed-@ID@',f'/tmp/{pre}-{id}').replace('@ID@',id).replace('@PROPERTY@',text)
used=[]
for m in sorted(glob.glob(f'/verif/seeded/{id}-*/meta.json')):
    used.append(json.load(open(m))['title'])
t+="\n\nADDITIONAL CONSTRAINT FOR THIS ROUND: an earlier round of fault injection already used the ideas listed below; do NOT reuse them or close variants - pick different functions, different mechanisms and, where you can, a different clause of the property. Prefer faults of these styles: two cooperating sites that each look fine alone; state that survives an error path or a panic; a boundary in a size/length/count other than the obvious one; an option combination nobody tests together; an interaction between two features (e.g. embedding + options, streaming + escaping, pooling + errors).\nAlready used:\n"+"".join(f" - {u}\n" for u in used)
open(out+"/INSTRUCTIONS.txt","w").write(t)
PY
  echo "prepared $wt"
done
